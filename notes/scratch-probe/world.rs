// scratch discrete-event world
use crate::common::*;
use foca::*;
use std::cmp::Reverse;
use std::collections::BinaryHeap;
use std::time::Duration;

pub enum Ev {
    Deliver { to_addr: u8, to: Id, data: Vec<u8> },
    Timer { node: usize, epoch: u32, t: Timer<Id> },
    Announce { node: usize, to: usize },
    Crash { node: usize },
    Leave { node: usize },
    Partition { groups: Vec<u8> }, // group id per node
    Heal,
}
pub struct Node {
    pub f: F,
    pub up: bool,
    pub epoch: u32, // process epoch (restart)
    pub notes: Vec<(u64, OwnedNotification<Id>)>,
    pub errors: Vec<(u64, String)>,
}
pub struct World {
    pub now: u64, // micros
    pub seq: u64,
    pub q: BinaryHeap<Reverse<(u64, u64, usize)>>,
    pub evs: Vec<Option<Ev>>,
    pub nodes: Vec<Node>,
    pub rng: Prng,
    pub lat_min: u64,
    pub lat_max: u64,
    pub group: Vec<u8>,
    pub drop_index: Option<u64>, // drop the k-th datagram sent from now on
    pub sent: u64,
    pub dropped_desc: Option<String>,
    pub delivered: u64,
    pub sends_log: Vec<(u64, u8, Id, Message<Id>)>,
    pub log_sends: bool,
}
impl World {
    pub fn new(seed: u64, lat_min: u64, lat_max: u64) -> Self {
        World { now: 0, seq: 0, q: BinaryHeap::new(), evs: vec![], nodes: vec![], rng: Prng(seed), lat_min, lat_max, group: vec![], drop_index: None, sent: 0, dropped_desc: None, delivered: 0, sends_log: vec![], log_sends: false }
    }
    pub fn add(&mut self, id: Id, cfg: Config) -> usize {
        let s = self.rng.next();
        self.nodes.push(Node { f: mk(id, cfg, s), up: true, epoch: 0, notes: vec![], errors: vec![] });
        self.group.push(0);
        self.nodes.len() - 1
    }
    pub fn at(&mut self, t: u64, e: Ev) {
        self.seq += 1;
        self.evs.push(Some(e));
        self.q.push(Reverse((t, self.seq, self.evs.len() - 1)));
    }
    fn absorb(&mut self, n: usize, rt: Rec) {
        let now = self.now;
        for (to, data) in rt.sends {
            self.sent += 1;
            if self.log_sends { self.sends_log.push((now, self.nodes[n].f.identity().addr, to, parse(&data).0.message)); }
            if let Some(k) = self.drop_index {
                if k == 0 { self.drop_index = None; self.dropped_desc = Some(format!("{:?}", parse(&data).0)); continue; }
                self.drop_index = Some(k - 1);
            }
            let lat = self.lat_min + self.rng.below(self.lat_max - self.lat_min + 1);
            self.at(now + lat, Ev::Deliver { to_addr: to.addr, to, data });
        }
        let ep = self.nodes[n].epoch;
        for (t, d) in rt.timers {
            self.at(now + d.as_micros() as u64, Ev::Timer { node: n, epoch: ep, t });
        }
        for x in rt.notes { self.nodes[n].notes.push((now, x)); }
    }
    pub fn absorb_pub(&mut self, n: usize, rt: Rec) { self.absorb(n, rt) }
    pub fn step(&mut self) -> bool {
        let Some(Reverse((t, _s, i))) = self.q.pop() else { return false };
        self.now = t;
        let ev = self.evs[i].take().unwrap();
        match ev {
            Ev::Deliver { to_addr, to: _, data } => {
                let Some(n) = self.nodes.iter().position(|n| n.f.identity().addr == to_addr) else { return true };
                if !self.nodes[n].up { return true; }
                // partition check by sender addr
                let (h, _) = parse(&data);
                let sn = self.nodes.iter().position(|x| x.f.identity().addr == h.src.addr).unwrap();
                if self.group[sn] != self.group[n] { return true; }
                self.delivered += 1;
                let mut rt = Rec::default();
                if let Err(e) = self.nodes[n].f.handle_data(&data, &mut rt) { self.nodes[n].errors.push((t, format!("data {:?}: {e:?}", h.message))); }
                self.absorb(n, rt);
            }
            Ev::Timer { node, epoch, t: tm } => {
                if !self.nodes[node].up || self.nodes[node].epoch != epoch { return true; }
                let mut rt = Rec::default();
                let d = format!("{tm:?}");
                if let Err(e) = self.nodes[node].f.handle_timer(tm, &mut rt) { self.nodes[node].errors.push((t, format!("timer {d}: {e:?}"))); }
                self.absorb(node, rt);
            }
            Ev::Announce { node, to } => {
                let dst = *self.nodes[to].f.identity();
                let mut rt = Rec::default();
                if let Err(e) = self.nodes[node].f.announce(dst, &mut rt) { self.nodes[node].errors.push((t, format!("announce: {e:?}"))); }
                self.absorb(node, rt);
            }
            Ev::Crash { node } => { self.nodes[node].up = false; }
            Ev::Leave { node } => {
                let mut rt = Rec::default();
                self.nodes[node].f.leave_cluster(&mut rt).unwrap();
                self.absorb(node, rt);
            }
            Ev::Partition { groups } => { self.group = groups; }
            Ev::Heal => { for g in self.group.iter_mut() { *g = 0; } }
        }
        true
    }
    pub fn run_until(&mut self, t: u64) {
        while let Some(Reverse((tt, _, _))) = self.q.peek() {
            if *tt > t { break; }
            self.step();
        }
        self.now = t;
    }
    pub fn full_view(&self, live: &[usize]) -> bool {
        for &i in live {
            let mut got: Vec<Id> = self.nodes[i].f.iter_members().map(|m| *m.id()).collect();
            got.sort();
            let mut want: Vec<Id> = live.iter().filter(|&&j| j != i).map(|&j| *self.nodes[j].f.identity()).collect();
            want.sort();
            if got != want { return false; }
        }
        true
    }
}
pub fn ms(x: u64) -> u64 { x * 1000 }
pub fn dur_ms(x: u64) -> Duration { Duration::from_millis(x) }
