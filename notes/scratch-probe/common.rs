// scratch: identity, codec, prng, recording runtime
use bytes::{Buf, BufMut};
use foca::*;
use std::time::Duration;

#[derive(Clone, Copy, Debug, PartialEq, Eq, Hash, PartialOrd, Ord)]
pub struct Id {
    pub addr: u8,
    pub gen: u16,
    pub renewable: bool,
}
impl Id {
    pub fn new(addr: u8, gen: u16, renewable: bool) -> Self {
        Id { addr, gen, renewable }
    }
}
impl Identity for Id {
    type Addr = u8;
    fn renew(&self) -> Option<Self> {
        if self.renewable {
            Some(Id { addr: self.addr, gen: self.gen + 1, renewable: true })
        } else {
            None
        }
    }
    fn addr(&self) -> u8 {
        self.addr
    }
    fn win_addr_conflict(&self, adv: &Self) -> bool {
        self.gen > adv.gen
    }
}

#[derive(Debug)]
pub struct CErr(pub &'static str);
impl std::fmt::Display for CErr {
    fn fmt(&self, f: &mut std::fmt::Formatter<'_>) -> std::fmt::Result {
        f.write_str(self.0)
    }
}
impl std::error::Error for CErr {}

#[derive(Clone, Copy)]
pub struct Cdc;
fn put_id(id: &Id, mut b: impl BufMut) -> Result<(), CErr> {
    if b.remaining_mut() < 4 {
        return Err(CErr("space"));
    }
    b.put_u8(id.addr);
    b.put_u16(id.gen);
    b.put_u8(id.renewable as u8);
    Ok(())
}
fn get_id(mut b: impl Buf) -> Result<Id, CErr> {
    if b.remaining() < 4 {
        return Err(CErr("short id"));
    }
    let addr = b.get_u8();
    let gen = b.get_u16();
    let r = b.get_u8();
    if r > 1 {
        return Err(CErr("bad bool"));
    }
    Ok(Id { addr, gen, renewable: r == 1 })
}
impl Codec<Id> for Cdc {
    type Error = CErr;
    fn encode_header(&mut self, h: &Header<Id>, mut b: impl BufMut) -> Result<(), CErr> {
        let mut tmp = Vec::new();
        put_id(&h.src, &mut tmp)?;
        tmp.put_u16(h.src_incarnation);
        put_id(&h.dst, &mut tmp)?;
        match &h.message {
            Message::Ping(n) => { tmp.put_u8(1); tmp.put_u8(*n); }
            Message::Ack(n) => { tmp.put_u8(2); tmp.put_u8(*n); }
            Message::PingReq { target, probe_number } => { tmp.put_u8(3); put_id(target, &mut tmp)?; tmp.put_u8(*probe_number); }
            Message::IndirectPing { origin, probe_number } => { tmp.put_u8(4); put_id(origin, &mut tmp)?; tmp.put_u8(*probe_number); }
            Message::IndirectAck { target, probe_number } => { tmp.put_u8(5); put_id(target, &mut tmp)?; tmp.put_u8(*probe_number); }
            Message::ForwardedAck { origin, probe_number } => { tmp.put_u8(6); put_id(origin, &mut tmp)?; tmp.put_u8(*probe_number); }
            Message::Gossip => tmp.put_u8(7),
            Message::Announce => tmp.put_u8(8),
            Message::Feed => tmp.put_u8(9),
            Message::Broadcast => tmp.put_u8(10),
            Message::TurnUndead => tmp.put_u8(11),
        }
        if b.remaining_mut() < tmp.len() {
            return Err(CErr("space"));
        }
        b.put_slice(&tmp);
        Ok(())
    }
    fn decode_header(&mut self, mut b: impl Buf) -> Result<Header<Id>, CErr> {
        let src = get_id(&mut b)?;
        if b.remaining() < 2 { return Err(CErr("short")); }
        let src_incarnation = b.get_u16();
        let dst = get_id(&mut b)?;
        if b.remaining() < 1 { return Err(CErr("short")); }
        let k = b.get_u8();
        let message = match k {
            1 | 2 => {
                if b.remaining() < 1 { return Err(CErr("short")); }
                let n = b.get_u8();
                if k == 1 { Message::Ping(n) } else { Message::Ack(n) }
            }
            3..=6 => {
                let id = get_id(&mut b)?;
                if b.remaining() < 1 { return Err(CErr("short")); }
                let n = b.get_u8();
                match k {
                    3 => Message::PingReq { target: id, probe_number: n },
                    4 => Message::IndirectPing { origin: id, probe_number: n },
                    5 => Message::IndirectAck { target: id, probe_number: n },
                    _ => Message::ForwardedAck { origin: id, probe_number: n },
                }
            }
            7 => Message::Gossip,
            8 => Message::Announce,
            9 => Message::Feed,
            10 => Message::Broadcast,
            11 => Message::TurnUndead,
            _ => return Err(CErr("bad kind")),
        };
        Ok(Header { src, src_incarnation, dst, message })
    }
    fn encode_member(&mut self, m: &Member<Id>, mut b: impl BufMut) -> Result<(), CErr> {
        if b.remaining_mut() < 7 { return Err(CErr("space")); }
        put_id(m.id(), &mut b)?;
        b.put_u16(m.incarnation());
        b.put_u8(match m.state() { State::Alive => 0, State::Suspect => 1, State::Down => 2 });
        Ok(())
    }
    fn decode_member(&mut self, mut b: impl Buf) -> Result<Member<Id>, CErr> {
        let id = get_id(&mut b)?;
        if b.remaining() < 3 { return Err(CErr("short")); }
        let inc = b.get_u16();
        let st = match b.get_u8() { 0 => State::Alive, 1 => State::Suspect, 2 => State::Down, _ => return Err(CErr("bad state")) };
        Ok(Member::new(id, inc, st))
    }
}

// xoshiro-ish prng (splitmix64 stream) good enough for scratch
#[derive(Clone)]
pub struct Prng(pub u64);
impl Prng {
    pub fn next(&mut self) -> u64 {
        self.0 = self.0.wrapping_add(0x9E3779B97F4A7C15);
        let mut z = self.0;
        z = (z ^ (z >> 30)).wrapping_mul(0xBF58476D1CE4E5B9);
        z = (z ^ (z >> 27)).wrapping_mul(0x94D049BB133111EB);
        z ^ (z >> 31)
    }
    pub fn below(&mut self, n: u64) -> u64 { self.next() % n }
    pub fn chance(&mut self, p: f64) -> bool { (self.next() >> 11) as f64 / (1u64 << 53) as f64 <= p }
}
impl rand::RngCore for Prng {
    fn next_u32(&mut self) -> u32 { (self.next() >> 32) as u32 }
    fn next_u64(&mut self) -> u64 { self.next() }
    fn fill_bytes(&mut self, d: &mut [u8]) { for b in d { *b = self.next() as u8; } }
}

#[derive(Default)]
pub struct Rec {
    pub sends: Vec<(Id, Vec<u8>)>,
    pub timers: Vec<(Timer<Id>, Duration)>,
    pub notes: Vec<OwnedNotification<Id>>,
}
impl Runtime<Id> for Rec {
    fn notify(&mut self, n: Notification<'_, Id>) { self.notes.push(n.to_owned()); }
    fn send_to(&mut self, to: Id, data: &[u8]) { self.sends.push((to, data.to_vec())); }
    fn submit_after(&mut self, e: Timer<Id>, after: Duration) { self.timers.push((e, after)); }
}

pub type F = Foca<Id, Cdc, Prng, NoCustomBroadcast>;
pub fn mk(id: Id, cfg: Config, seed: u64) -> F { Foca::new(id, cfg, Prng(seed), Cdc) }

pub fn dgram(h: Header<Id>, ups: &[Member<Id>]) -> Vec<u8> {
    let mut v = Vec::new();
    Cdc.encode_header(&h, &mut v).unwrap();
    if !ups.is_empty() {
        v.put_u16(ups.len() as u16);
        for m in ups { Cdc.encode_member(m, &mut v).unwrap(); }
    }
    v
}
pub fn parse(mut d: &[u8]) -> (Header<Id>, Vec<Member<Id>>) {
    let h = Cdc.decode_header(&mut d).unwrap();
    let mut ups = vec![];
    if d.len() >= 2 && h.message != Message::Broadcast {
        let n = d.get_u16();
        for _ in 0..n { ups.push(Cdc.decode_member(&mut d).unwrap()); }
    }
    (h, ups)
}
