#!/usr/bin/env bash
# runs every check (quick by default) on the current tree; prints one line per check
tier="${1:-quick}"
cd /verif
for c in $(./sim/target/checked/focasim list); do
  out=$(./check $c --tier $tier 2>&1); code=$?
  echo "$c exit=$code $(echo "$out" | grep -E "^C[0-9]+: " | tail -1) $(echo "$out" | grep -cE '^KNOWN-FINDING') known $(echo "$out" | grep -E '^VIOLATION' | head -2 | tr '\n' ' ')"
done
# what the monitors of OTHER properties saw in each check's scenarios (expected: nothing); triage with
# VERIF_AS_PROPERTY=<that property> ./check <this check>
python3 - <<'P'
import json, glob
for f in sorted(glob.glob('/verif/evidence/C[0-9][0-9].json')):
    e = json.load(open(f)); c = e['coverage'].get('cross_property_observations')
    if c: print('cross-property observations in', e['property_id'], c)
P
