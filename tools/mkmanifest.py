#!/usr/bin/env python3
"""Regenerates /verif/MANIFEST.json from the table below (run after adding a check)."""
import json, subprocess
props = [json.loads(l) for l in open('/verif/properties.jsonl')]
hook_commit = "4a75e26"
# id -> (level, technique, level text, level note, design ref)
CHECKS = {
 "C01": ("exploration", "deterministic simulation: delivery order/multiplicity/batching of update multisets as the injected fault, refereed by an executable reference merge model; complete depth-3 sweep; state exchange between two instances",
         "Per multiset 8..16 schedules on fresh real instances (apply_many and datagrams), final views compared with each other and with fold(reference merge); per-call forward-only check; re-applying own state is a no-op; two instances exchanging full states agree on third parties. Complete for all sequences of length <= 3 over a 36-update alphabet (thorough), sampled beyond.",
         "reference merge written from SWIM 4.2/Identity docs; Down incarnation masked as the property allows", "5/C01"),
 "C05": ("exploration", "deterministic simulation: seeded partitions (all split shapes, asymmetric isolation, stall) of clusters of renewable instances, heal with datagrams in flight, bounded-convergence oracle",
         "After the heal every live instance must list the current identity of every other within (n+8) announce-to-down periods + (2n+1) probe periods; no Defunct, no error; runs whose partition did not produce mutual Down are discarded and counted. Known finding K-C05-1 (pinned replay) is reported as such.",
         "premise of C02 outside the partition; n <= 16; bound empirical (worst observed ~0.4 of bound)", "5/C05"),
 "C07": ("fault_enumeration", "deterministic simulation: enumeration of 'encode space runs out after b bytes' for every message kind at every packet size from the largest header to +300 and 1400/65535/65536, 4 codecs x 2 identity encodings, each datagram parsed by an independent grammar parser and handed to a real peer; plus the same monitor on every Send of seeded histories",
         "Complete within the stated sweep (sizes x kinds x codecs x member counts); size bound, grammar, header source/incarnation/destination, Announce/TurnUndead/Broadcast/Feed shape, peer acceptance.",
         "independent parser written from the Header documentation; packet sizes below the largest header belong to C06", "5/C07"),
 "C12": ("exploration", "deterministic simulation: scripted probe rounds (who answers what, with which probe number, when; membership changes and aborts mid-round) on a real instance with an evidence oracle, plus clusters of real instances with one directed link cut and a relay monitor on every call",
         "Oracle at the indirect-probe timer (PingReq warranted / fan-out / destinations / fields) and at the next probe timer (suspicion + exactly one timeout iff no genuine evidence); relay monitor (Ping->Ack, PingReq->IndirectPing->IndirectAck->ForwardedAck preserve origin/target/number, self-naming requests rejected) runs in every scenario of every check.",
         "scripted peers in the round table (stated as stubs); real instances on every hop in the chain scenario", "5/C12"),
 "C14": ("exploration", "deterministic simulation: seeded member-list layouts (n active, 0..n Down, random insertion/batching, cursor moved by warm-up churn) on a real instance with peers that Ack at once; window oracle over >= 6n probe rounds",
         "Every window of 2n-1 consecutive rounds pings every active member; each round pings exactly one active member, never a Down one or itself. The bound is tight (reached in ~57% of runs, never exceeded).",
         "member set stable during the measured phase (checked); scripted peers", "5/C14"),
 "C17": ("exploration", "deterministic simulation: twin runs of a seeded history with 1..20 rejected inputs (15 classes) inserted on the twin, plus a third run for determinism",
         "Every inserted input returns its documented result with no effect, no handler call and no state change; every base operation is identical (result, ordered effects, handler calls) in both runs and final states are equal; the same history run twice gives identical logs.",
         "hook snapshot used to craft stale tokens and compare whole states", "5/C17"),
 "C20": ("fault_enumeration", "deterministic simulation: fault table on the BufMut/Buf seams of the bundled codecs (write space ends after b bytes, datagram torn after b bytes, for every b; seeded corruptions), adversarial histories and the packing sweep with those codecs, and an out-of-process probe of bincode's unbounded length prefix",
         "Round trip with trailing junk (equal value, exact bytes consumed), every short buffer (Err, nothing beyond the limit), every truncation and 40/1000 corruptions per value (value or Err, no panic, no over-read) for BincodeCodec and PostcardCodec over two identity shapes and every Message variant. Known finding K-C20-1 (pinned replay) is reported as such.",
         "the in-process table for string-bearing identities runs bincode with_limit::<65536>() because the unlimited configuration aborts the process (K-C20-1)", "5/C20"),
 "C02": ("exploration", "deterministic simulation: seeded fault-free clusters of real instances under a discrete-event scheduler (latency jitter/reordering only) with always-on no-false-suspicion oracles and per-family discovery bounds",
         "Seeded search over cluster sizes, join plans (sequential, concurrent with/without periodic announce), configurations and latencies; zero false suspicion/notification/error checked after every event; discovery bound derived for sequential joins, empirical with >=4x margin for concurrent joins with periodic announce; stalls with periodic announce off are classified against the known-finding signature K-C02-1.",
         "premise enforced by the simulator: latency < probe_rtt/4, probe_rtt < probe_period, exact timers, no loss; n <= 24", "5/C02"),
 "C03": ("exploration", "deterministic simulation: seeded formed clusters with crash / leave+exit / leave+stay injected right after the e-th processed event, bounded-detection oracle per (survivor, failed member)",
         "Every survivor that listed a failed member must notify MemberDown within (2n+1) probe periods + suspect_to_down_after; no survivor is declared down; leave gossip is reported in the handling call; a departed but still driven instance stops answering and never comes back by itself. Thorough sweeps every failure point in a 400-event window for small clusters.",
         "premise as C02 apart from the injected failures; n <= 16", "5/C03"),
 "C04": ("fault_enumeration", "deterministic simulation: per sampled cluster configuration one run per datagram index with exactly that datagram lost (fault enumeration over loss positions)",
         "For each configuration the base run is executed, then one run per datagram position in a window of 2n probe periods (thorough: every position; quick: 24 stride-sampled), clusters formed by state restore or by joins with periodic announce (so Ping, Ack, Announce, Feed and Gossip positions are all hit; indirect relays only exist as a consequence of the loss). Oracle: no MemberDown/Defunct/Rejoin/Idle anywhere and everyone Alive again 2n+2 periods later.",
         "configuration envelope: latency <= probe_rtt/4, probe_period > probe_rtt + 4*latency, suspect_to_down_after >= probe_period", "5/C04"),
 "C18": ("exploration", "deterministic simulation: 2-3 real instances in seeded mutual-knowledge states, timers held, one initial datagram of each kind, seeded delivery order until the network drains",
         "Seeded search over knowledge states x self states x renew policies x initial datagram kinds x delivery orders; oracle: the network drains within 400 deliveries (worst observed 16) and no delivery causes more than 2*fan-out+2 datagrams.",
         "max_transmissions <= 5; initial knowledge injected through apply_many", "5/C18"),
 "C06": ("exploration", "deterministic simulation: seeded adversarial single-instance histories, multi-node chaos pool, exhaustive depth-3/4 histories and a huge-cluster scenario, all under catch_unwind in two build profiles; constructors by enumeration",
         "Seeded search over adversarial histories (random/mutated/valid datagrams, genuine/crafted/stale/duplicated timers, every API call incl. any legal set_config) in builds with and without debug assertions/overflow checks; a clean batch is evidence, not proof. Config::new_lan/new_wan: enumeration (thorough: all 2^32-1 cluster sizes).",
         "the simulator's Codec/Runtime/BroadcastHandler/Identity do not panic; max_packet_size <= 70000 and fan-out <= 64 (alloc aborts excluded)", "5/C06"),
 "C08": ("exploration", "deterministic simulation: seeded adversarial histories with a notification-mirror and connection-state-machine monitor after every call",
         "Every call of every run is checked: replayed MemberUp/MemberDown/Rename == iter_members, num_members, Active/Idle/Defunct/Rejoin state machine and triggers. Seeded sampling of histories over small identity/incarnation domains. Batches: seeded adversarial single-instance histories; a multi-node chaos pool (real instances under loss, duplication, corruption, partitions, crash/restart, stalls, clock skew); and EVERY history of 3 (quick) / 4 (thorough) operations over a 40-operation alphabet x 8 setups.",
         "hook snapshot used to cross-check the connection state implied by notifications; peers are generated, not real", "5/C08"),
 "C09": ("exploration", "deterministic simulation: seeded adversarial histories with table-invariant monitor after every call",
         "Unique addresses, own address never active, size bound, identities only move forward (with Rename), removal only by the forget timer, payload of Down/superseded senders discarded; checked after every call of every run. Batches: seeded adversarial single-instance histories; a multi-node chaos pool (real instances under loss, duplication, corruption, partitions, crash/restart, stalls, clock skew); and EVERY history of 3 (quick) / 4 (thorough) operations over a 40-operation alphabet x 8 setups.",
         "identity conflict order is total per address (higher generation wins)", "5/C09"),
 "C10": ("exploration", "deterministic simulation: seeded adversarial histories with incarnation-ledger monitor (renew policies Never/Next/Same/Losing)",
         "Own incarnation per tenure (hook snapshot + every emitted header), growth only justified by suspicions in the input, told-incarnation bound on every outgoing update, rejoin/defunct reaction and no connection-gated emission while defunct. Batches: seeded adversarial single-instance histories; a multi-node chaos pool (real instances under loss, duplication, corruption, partitions, crash/restart, stalls, clock skew); and EVERY history of 3 (quick) / 4 (thorough) operations over a 40-operation alphabet x 8 setups.",
         "grey area O1 (a defunct instance still refutes a suspicion) is counted, not asserted; crafted timers are exempt from the defunct gating", "5/C10"),
 "C11": ("fault_enumeration", "deterministic simulation: complete case table of timeout interleavings over a real instance driven through the genuine probe path, plus random compositions",
         "Complete product of interleavings x epoch histories x duplicates x configuration over the genuine ChangeSuspectToDown timer with an iff-oracle on effects, plus finality sequences; complete within the stated table, sampled beyond it.",
         "scripted peers; token currency inferred from public notifications", "5/C11"),
 "C13": ("exploration", "deterministic simulation: seeded histories where the simulator is the only timer source (each timer delivered exactly once, deadline order with lateness or arbitrary order) with a timer-ledger monitor",
         "Ledger of outstanding timers per connection epoch checked after every call; stale genuine timers must have no effect at all; handle_timer error discipline per delivery mode. Batches: seeded adversarial single-instance histories; a multi-node chaos pool (real instances under loss, duplication, corruption, partitions, crash/restart, stalls, clock skew); and EVERY history of 3 (quick) / 4 (thorough) operations over a 40-operation alphabet x 8 setups.",
         "fewer than 256 epoch changes between issue and delivery; epochs inferred from public notifications", "5/C13"),
 "C15": ("exploration", "deterministic simulation: seeded histories with an executable backlog reference model compared after every call and on every piggybacking datagram",
         "Reference model (one entry per address, max_transmissions, class-wise greedy fill by priority) checked against every emitted update section byte-for-byte, against updates_backlog() and against the hook snapshot of remaining transmissions. Batches: seeded adversarial single-instance histories; a multi-node chaos pool (real instances under loss, duplication, corruption, partitions, crash/restart, stalls, clock skew); and EVERY history of 3 (quick) / 4 (thorough) operations over a 40-operation alphabet x 8 setups.",
         "calls that interleave self-refutation gossip with inserts are resynchronised from the snapshot instead of modelled (counted in evidence)", "5/C15"),
 "C16": ("exploration", "deterministic simulation: seeded histories with a custom-broadcast backlog model, handler-call log and recipient predicate",
         "Every emitted item is a whole pending item, at most max_transmissions times, only on allowed kinds/recipients, never after invalidation; receiver handler sees exactly the items once each with the sender; broadcast() fan-out/eligibility/drain rules. Batches: seeded adversarial single-instance histories; a multi-node chaos pool (real instances under loss, duplication, corruption, partitions, crash/restart, stalls, clock skew); and EVERY history of 3 (quick) / 4 (thorough) operations over a 40-operation alphabet x 8 setups.",
         "SimHandler is a versioned set-key register with a per-run invalidation relation", "5/C16"),
 "C19": ("exploration", "deterministic simulation: destination monitor on every datagram of seeded adversarial histories with own-address generations, renewals and all periodic-task combinations",
         "Every Send of every run is checked: destination address != sender address unless relay towards a peer-named target or user-supplied announce destination. Batches: seeded adversarial single-instance histories; a multi-node chaos pool (real instances under loss, duplication, corruption, partitions, crash/restart, stalls, clock skew); and EVERY history of 3 (quick) / 4 (thorough) operations over a 40-operation alphabet x 8 setups.",
         "crafted timers that name the destination themselves are treated as caller-supplied", "5/C19"),
}
# additions of round 12 (appended to the level text)
EXTRA = {
 "C01": " On the final states of every chaos-pool run (whatever the faults made of them): iter_membership_state fed to a fresh instance reproduces itself on third parties, feeding it again is a no-op, and pairs of restored instances exchanging full states agree on every third-party address.",
 "C04": " Half of the configurations use small packets plus add_broadcast traffic, so that datagrams filled to exactly max_packet_size occur (counted).",
 "C07": " One history in five uses a max_packet_size between the shortest and the longest header of the identity domain (sends that fail half-way with an encode error; the next datagram must still be well-formed).",
 "C11": " As a monitor on every suspicion timeout of the shared batches: a timeout the instance scheduled itself is stale iff it was issued in an earlier epoch by the monitor's own ledger (not by comparing 8-bit tokens); warm-ups of 246-259 epochs through idle flaps or identity changes.",
 "C17": " 16 classes, one of them change_identity with an equal identity value that differs in an attribute its equality does not cover.",
 "C18": " Instances have refuted 0..3 suspicions (own incarnation 0..3) before the exchange.",
 "C20": " The history batch reports datagram well-formedness and panics with the bundled codecs inside a running instance, incl. tight-header configurations where header encodes fail half-way.",
}
checks = []
for pid in sorted(CHECKS):
    level, tech, text, note, ref = CHECKS[pid]
    text = text + EXTRA.get(pid, "")
    checks.append({
        "property_id": pid,
        "quick_cmd": f"./check {pid} --tier quick",
        "thorough_cmd": f"./check {pid} --tier thorough",
        "evidence_file": f"/verif/evidence/{pid}.json",
        "replay_cmd_template": f"./check {pid} --replay {{path}}",
        "engine": "focasim",
        "level_claimed": {"category": level, "text": text, "design_ref": f"DESIGN.md section {ref}"},
        "level_note": note,
        "technique": tech,
    })
na = [{"property_id": p['id'], "reason": "check not implemented yet (work in progress; see DESIGN.md section 5)"} for p in props if p['id'] not in CHECKS]
m = {
 "version": 1,
 "setup_cmd": "cd /verif && ./check build",
 "hooks": {"guard": "verif-hooks (cargo feature of foca, off by default)",
           "enable": "foca = { path = \"../repo-link\" (symlink to /repo), features = [\"std\",\"serde\",\"bincode-codec\",\"postcard-codec\",\"verif-hooks\"] } in /verif/sim/Cargo.toml",
           "baseline_off_cmd": "cd /repo && cargo test --workspace --no-fail-fast --offline",
           "source_commits": [hook_commit], "add_only": True},
 "engines": [{"name": "focasim", "path": "/verif/sim", "serves_properties": sorted(CHECKS),
              "kind_free_text": "deterministic discrete-event simulator with seeded fault injection over real foca instances (Rust, single process, 16 worker threads across runs)"}],
 "checks": checks,
 "not_applicable": na,
 "notes": "All checks: exit 0 = held on everything explored, 1 = VIOLATION line(s) with minimised replay, 2 = harness error. VERIF_SEED selects the batch seed (default 1). Known findings: /verif/KNOWN_FINDINGS.txt.",
}
json.dump(m, open('/verif/MANIFEST.json', 'w'), indent=1)
print("checks:", len(checks), "not_applicable:", len(na))
