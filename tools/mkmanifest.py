#!/usr/bin/env python3
"""Regenerates /verif/MANIFEST.json from the table below (run after adding a check)."""
import json, subprocess
props = [json.loads(l) for l in open('/verif/properties.jsonl')]
hook_commit = "4a75e26"
# id -> (level, technique, level text, level note, design ref)
CHECKS = {
 "C02": ("exploration", "deterministic simulation: seeded fault-free clusters of real instances under a discrete-event scheduler (latency jitter/reordering only) with always-on no-false-suspicion oracles and per-family discovery bounds",
         "Seeded search over cluster sizes, join plans (sequential, concurrent with/without periodic announce), configurations and latencies; zero false suspicion/notification/error checked after every event; discovery bound derived for sequential joins, empirical with >=4x margin for concurrent joins with periodic announce; stalls with periodic announce off are classified against the known-finding signature K-C02-1.",
         "premise enforced by the simulator: latency < probe_rtt/4, probe_rtt < probe_period, exact timers, no loss; n <= 24", "5/C02"),
 "C03": ("exploration", "deterministic simulation: seeded formed clusters with crash / leave+exit / leave+stay injected right after the e-th processed event, bounded-detection oracle per (survivor, failed member)",
         "Every survivor that listed a failed member must notify MemberDown within (2n+1) probe periods + suspect_to_down_after; no survivor is declared down; leave gossip is reported in the handling call; a departed but still driven instance stops answering and never comes back by itself. Thorough sweeps every failure point in a 400-event window for small clusters.",
         "premise as C02 apart from the injected failures; n <= 16", "5/C03"),
 "C04": ("fault_enumeration", "deterministic simulation: per sampled cluster configuration one run per datagram index with exactly that datagram lost (fault enumeration over loss positions)",
         "For each configuration the base run is executed, then one run per datagram position in a window of 2n probe periods (thorough: every position; quick: 24 stride-sampled), clusters formed by state restore or by joins with periodic announce (so Ping, Ack, Announce, Feed and Gossip positions are all hit; indirect relays only exist as a consequence of the loss). Oracle: no MemberDown/Defunct/Rejoin/Idle anywhere and everyone Alive again 2n+2 periods later.",
         "configuration envelope: latency <= probe_rtt/4, probe_period > probe_rtt + 4*latency, suspect_to_down_after >= probe_period", "5/C04"),
 "C18": ("exploration", "deterministic simulation: 2-3 real instances in seeded mutual-knowledge states, timers held, one initial datagram of each kind, seeded delivery order until the network drains",
         "Seeded search over knowledge states x self states x renew policies x initial datagram kinds x delivery orders; oracle: the network drains within 400 deliveries (worst observed 16) and no delivery causes more than 2*fan-out+2 datagrams.",
         "max_transmissions <= 5; initial knowledge injected through apply_many", "5/C18"),
 "C06": ("exploration", "deterministic simulation: seeded adversarial single-instance histories under catch_unwind in two build profiles; constructors by enumeration",
         "Seeded search over adversarial histories (random/mutated/valid datagrams, genuine/crafted/stale/duplicated timers, every API call incl. any legal set_config) in builds with and without debug assertions/overflow checks; a clean batch is evidence, not proof. Config::new_lan/new_wan: enumeration (thorough: all 2^32-1 cluster sizes).",
         "the simulator's Codec/Runtime/BroadcastHandler/Identity do not panic; max_packet_size <= 70000 and fan-out <= 64 (alloc aborts excluded)", "5/C06"),
 "C08": ("exploration", "deterministic simulation: seeded adversarial histories with a notification-mirror and connection-state-machine monitor after every call",
         "Every call of every run is checked: replayed MemberUp/MemberDown/Rename == iter_members, num_members, Active/Idle/Defunct/Rejoin state machine and triggers. Seeded sampling of histories over small identity/incarnation domains.",
         "hook snapshot used to cross-check the connection state implied by notifications; peers are generated, not real", "5/C08"),
 "C09": ("exploration", "deterministic simulation: seeded adversarial histories with table-invariant monitor after every call",
         "Unique addresses, own address never active, size bound, identities only move forward (with Rename), removal only by the forget timer, payload of Down/superseded senders discarded; checked after every call of every run.",
         "identity conflict order is total per address (higher generation wins)", "5/C09"),
 "C10": ("exploration", "deterministic simulation: seeded adversarial histories with incarnation-ledger monitor (renew policies Never/Next/Same/Losing)",
         "Own incarnation per tenure (hook snapshot + every emitted header), growth only justified by suspicions in the input, told-incarnation bound on every outgoing update, rejoin/defunct reaction and no connection-gated emission while defunct.",
         "grey area O1 (a defunct instance still refutes a suspicion) is counted, not asserted; crafted timers are exempt from the defunct gating", "5/C10"),
 "C11": ("fault_enumeration", "deterministic simulation: complete case table of timeout interleavings over a real instance driven through the genuine probe path, plus random compositions",
         "Complete product of interleavings x epoch histories x duplicates x configuration over the genuine ChangeSuspectToDown timer with an iff-oracle on effects, plus finality sequences; complete within the stated table, sampled beyond it.",
         "scripted peers; token currency inferred from public notifications", "5/C11"),
 "C13": ("exploration", "deterministic simulation: seeded histories where the simulator is the only timer source (each timer delivered exactly once, deadline order with lateness or arbitrary order) with a timer-ledger monitor",
         "Ledger of outstanding timers per connection epoch checked after every call; stale genuine timers must have no effect at all; handle_timer error discipline per delivery mode.",
         "fewer than 256 epoch changes between issue and delivery; epochs inferred from public notifications", "5/C13"),
 "C15": ("exploration", "deterministic simulation: seeded histories with an executable backlog reference model compared after every call and on every piggybacking datagram",
         "Reference model (one entry per address, max_transmissions, class-wise greedy fill by priority) checked against every emitted update section byte-for-byte, against updates_backlog() and against the hook snapshot of remaining transmissions.",
         "calls that interleave self-refutation gossip with inserts are resynchronised from the snapshot instead of modelled (counted in evidence)", "5/C15"),
 "C16": ("exploration", "deterministic simulation: seeded histories with a custom-broadcast backlog model, handler-call log and recipient predicate",
         "Every emitted item is a whole pending item, at most max_transmissions times, only on allowed kinds/recipients, never after invalidation; receiver handler sees exactly the items once each with the sender; broadcast() fan-out/eligibility/drain rules.",
         "SimHandler is a versioned set-key register with a per-run invalidation relation", "5/C16"),
 "C19": ("exploration", "deterministic simulation: destination monitor on every datagram of seeded adversarial histories with own-address generations, renewals and all periodic-task combinations",
         "Every Send of every run is checked: destination address != sender address unless relay towards a peer-named target or user-supplied announce destination.",
         "crafted timers that name the destination themselves are treated as caller-supplied", "5/C19"),
}
checks = []
for pid in sorted(CHECKS):
    level, tech, text, note, ref = CHECKS[pid]
    checks.append({
        "property_id": pid,
        "quick_cmd": f"./check {pid} --tier quick",
        "thorough_cmd": f"./check {pid} --tier thorough",
        "evidence_file": f"/verif/evidence/{pid}.json",
        "replay_cmd_template": f"./check {pid} --replay {{path}}",
        "engine": "focasim",
        "level_claimed": {"category": level, "text": text, "design_ref": f"DESIGN.md section {ref}"},
        "level_note": note,
        "technique": tech,
    })
na = [{"property_id": p['id'], "reason": "check not implemented yet (work in progress; see DESIGN.md section 5)"} for p in props if p['id'] not in CHECKS]
m = {
 "version": 1,
 "setup_cmd": "cd /verif && ./check build",
 "hooks": {"guard": "verif-hooks (cargo feature of foca, off by default)",
           "enable": "foca = { path = \"/repo\", features = [\"std\",\"serde\",\"bincode-codec\",\"postcard-codec\",\"verif-hooks\"] } in /verif/sim/Cargo.toml",
           "baseline_off_cmd": "cd /repo && cargo test --workspace --no-fail-fast --offline",
           "source_commits": [hook_commit], "add_only": True},
 "engines": [{"name": "focasim", "path": "/verif/sim", "serves_properties": sorted(CHECKS),
              "kind_free_text": "deterministic discrete-event simulator with seeded fault injection over real foca instances (Rust, single process, 16 worker threads across runs)"}],
 "checks": checks,
 "not_applicable": na,
 "notes": "All checks: exit 0 = held on everything explored, 1 = VIOLATION line(s) with minimised replay, 2 = harness error. VERIF_SEED selects the batch seed (default 1). Known findings: /verif/KNOWN_FINDINGS.txt.",
}
json.dump(m, open('/verif/MANIFEST.json', 'w'), indent=1)
print("checks:", len(checks), "not_applicable:", len(na))
