#!/usr/bin/env bash
# usage: tools/regress_seeded.sh : every seeded change against the check of its own property (quick tier);
# prints one line per change; a line "MISSED" means a check no longer detects a change it used to detect
cd /verif
for d in seeded/C[0-9][0-9]-*; do
  prop=$(basename $d | cut -d- -f1)
  SEEDED_OUT=regress.txt tools/run_seeded.sh $d $prop >/dev/null 2>&1
  if grep -q "exit=1" $d/regress.txt; then echo "$(basename $d): caught  $(cat $d/regress.txt)"; else echo "$(basename $d): MISSED  $(cat $d/regress.txt)"; fi
done
