#!/usr/bin/env bash
# usage: tools/confirm_mutant2.sh <worktree> <mode: intests|append|pathmod|pubtest> <test-filter>
# confirms (i) suite passes with patch, (ii) demo fails with patch, (iii) demo passes without
set -u
wt="$1"; mode="$2"; filt="$3"; cd "$wt" || exit 2
git checkout -q -- . ; rm -rf tests/
put_demo() {
  case $mode in
    intests) python3 - <<'P'
s=open('src/lib.rs').read().rstrip()
assert s.endswith('}')
s=s[:-1]+"\n"+open('mutant/demo.rs').read()+"\n}\n"
open('src/lib.rs','w').write(s)
P
    ;;
    append) cat mutant/demo.rs >> src/lib.rs ;;
    pathmod) printf '#[cfg(test)]\n#[path = "../mutant/demo.rs"]\nmod %s;\n' "$filt" >> src/lib.rs ;;
    pubtest) mkdir -p tests; cp mutant/demo.rs tests/demo.rs ;;
  esac
}
run_demo() {
  put_demo
  if [ $mode = pubtest ]; then cargo test --offline --features bincode-codec,postcard-codec --test demo 2>&1 | grep -E "^test result|panicked" | head -3
  else cargo test --offline --lib "$filt" 2>&1 | grep -E "^test result|^error" | head -3; fi
}
echo "== (i) suite with patch"
git apply mutant/patch.diff || { echo "patch does not apply"; exit 2; }
cargo test --offline 2>&1 | grep -E "^test result" | head -1
echo "== (ii) demo with patch"
run_demo
git checkout -q -- . ; rm -rf tests/
echo "== (iii) demo without patch"
run_demo
git checkout -q -- . ; rm -rf tests/
