#!/usr/bin/env bash
# usage: tools/multiseed.sh <from> <to> [checks...] : quick tier of every check under VERIF_SEED=from..to; prints only non-zero exits
cd "$(dirname "$0")/.."
from=$1; to=$2; shift 2
./check build >/dev/null || exit 2
checks="${*:-$(./sim/target/checked/focasim list | tr '\n' ' ')}"
for s in $(seq $from $to); do
  for c in $checks; do
    out=$(VERIF_SEED=$s VERIF_EVIDENCE_SUFFIX=.ms ./check $c --tier quick 2>&1); code=$?
    if [ $code -ne 0 ]; then echo "seed=$s $c exit=$code"; echo "$out" | grep -E "^VIOLATION|oracle=" | head -5; fi
  done
  echo "seed $s done"
done
rm -f evidence/*.ms.json evidence/*.ms.release-profile.json
