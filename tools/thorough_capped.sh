#!/usr/bin/env bash
# usage: tools/thorough_capped.sh <seconds-per-batch> <checks...> : thorough tier with a wall-clock cap per batch (false-alarm hunting)
cd "$(dirname "$0")/.."
cap=$1; shift
./check build >/dev/null || exit 2
for c in "$@"; do
  out=$(VERIF_MAX_WALL_S=$cap VERIF_EVIDENCE_SUFFIX=.cap ./check $c --tier thorough 2>&1); code=$?
  echo "$c exit=$code"; echo "$out" | grep -E "^  batch|^VIOLATION|oracle=|^C[0-9]+:" | cut -c1-300 | head -20
done
rm -f evidence/*.cap*.json
