#!/usr/bin/env bash
# usage: tools/confirm_mutant.sh <worktree> : confirms (i) suite passes with patch, (ii) demo fails with patch, (iii) demo passes without
set -u
wt="$1"; cd "$wt" || exit 2
git checkout -q -- . ; rm -rf tests/
run_demo() {
  if [ -f mutant/demo.diff ]; then
    git apply mutant/demo.diff || { echo "demo.diff does not apply"; return 2; }
    name=$(grep -E '^\+\s*fn [a-z_0-9]+\(\)' mutant/demo.diff | head -1 | sed -E 's/.*fn ([a-z_0-9]+)\(\).*/\1/')
    cargo test --offline --lib "$name" 2>&1 | grep -E "^test result|test .*$name" | head -3
  else
    mkdir -p tests && cp mutant/demo_test.rs tests/demo_seeded.rs
    cargo test --offline --features std,postcard-codec --test demo_seeded 2>&1 | grep -E "^test result" | head -2
  fi
}
echo "== (i) suite with patch"
git apply mutant/patch.diff || { echo "patch does not apply"; exit 2; }
cargo test --offline 2>&1 | grep -E "^test result" | head -1
echo "== (ii) demo with patch"
run_demo
git checkout -q -- . ; rm -rf tests/
echo "== (iii) demo without patch"
run_demo
git checkout -q -- . ; rm -rf tests/
