#!/usr/bin/env python3
"""usage: tools/mkmeta.py <seeded-dir> <how-demo-was-confirmed> : writes meta.json from agent_meta.json + detection.txt"""
import json, sys, os, re
d = sys.argv[1]; how = sys.argv[2]
am = json.load(open(os.path.join(d, 'agent_meta.json')))
caught, oracles = [], {}
for l in open(os.path.join(d, 'detection.txt')):
    parts = l.split()
    if len(parts) >= 2 and parts[1] != 'exit=0':
        caught.append(parts[0]); oracles[parts[0]] = [p for p in parts[2:]]
meta = {
 "property": am.get("property"),
 "origin": "written by an independent sub-agent that saw only the property text and a scratch worktree of /repo (rounds 7-11: asked for a change that needs a specific fault, interleaving, configuration or boundary to manifest (round 9: hard to reach - several instances, coincidences, hundreds of rounds))",
 "summary": am.get("summary"),
 "needs_to_manifest": am.get("what_it_needs_to_manifest"),
 "demo": "demo.rs (" + str(am.get("how_demo_was_run"))[:400] + ")",
 "confirmed_by_me": {"suite_with_patch": "79 passed", "demo_with_patch": "fails", "demo_without_patch": "passes", "how": how},
 "checks_run": "tools/run_seeded.sh (git -C /repo apply patch.diff; every ./check <ID> --tier quick; git -C /repo checkout -- .)",
 "caught_by": caught, "oracles": oracles,
 "caught_by_own_property_check": am.get("property") in caught,
}
json.dump(meta, open(os.path.join(d, 'meta.json'), 'w'), indent=1)
print(d, caught)
