#!/usr/bin/env bash
# usage: tools/run_seeded.sh <seeded-dir> [checks...] : applies the patch to /repo, runs the quick checks, restores /repo
set -u
d="$1"; shift
checks="${*:-$(cd /verif/sim && ./target/checked/focasim list | tr '\n' ' ')}"
cd /verif
git -C /repo diff --quiet || { echo "/repo has uncommitted changes"; exit 2; }
git -C /repo apply "$PWD/$d/patch.diff" || { echo "patch does not apply"; exit 2; }
out_file="$d/${SEEDED_OUT:-detection.txt}"
: > "$out_file"
for c in $checks; do
  out=$(VERIF_EVIDENCE_SUFFIX=.seeded ./check $c --tier quick 2>&1)
  code=$?
  tags=$(echo "$out" | grep -oE "oracle=[^ ]+" | sort -u | tr '\n' ' ')
  echo "$c exit=$code $tags" | tee -a "$out_file"
done
git -C /repo checkout -- .
rm -f /verif/evidence/*.seeded.json /verif/evidence/*.seeded.release-profile.json
./check build >/dev/null
