//! Counter-based randomness: every choice is keyed by what it is for, not by how many draws
//! preceded it. One integer (the run seed) decides everything.

#[inline]
pub fn mix(mut z: u64) -> u64 {
    z = z.wrapping_add(0x9E37_79B9_7F4A_7C15);
    z = (z ^ (z >> 30)).wrapping_mul(0xBF58_476D_1CE4_E5B9);
    z = (z ^ (z >> 27)).wrapping_mul(0x94D0_49BB_1331_11EB);
    z ^ (z >> 31)
}

#[inline]
pub fn mix2(a: u64, b: u64) -> u64 {
    mix(mix(a) ^ b.wrapping_mul(0xD6E8_FEB8_6659_FD93))
}

#[inline]
pub fn mix3(a: u64, b: u64, c: u64) -> u64 {
    mix2(mix2(a, b), c)
}

/// FNV-1a over a name, used to derive stream ids from strings.
pub fn name_hash(name: &str) -> u64 {
    let mut h: u64 = 0xcbf2_9ce4_8422_2325;
    for b in name.as_bytes() {
        h ^= *b as u64;
        h = h.wrapping_mul(0x0000_0100_0000_01b3);
    }
    h
}

/// The `index`-th value of stream `stream` of run `seed`.
#[inline]
pub fn draw(seed: u64, stream: u64, index: u64) -> u64 {
    mix3(seed, stream, index)
}

/// A sequential view over one stream (convenience; still a pure function of (seed, stream)).
#[derive(Clone, Debug)]
pub struct Stream {
    seed: u64,
    stream: u64,
    idx: u64,
}

impl Stream {
    pub fn new(seed: u64, name: &str) -> Self {
        Stream { seed, stream: name_hash(name), idx: 0 }
    }
    pub fn sub(seed: u64, name: &str, a: u64, b: u64) -> Self {
        Stream { seed, stream: mix3(name_hash(name), a, b), idx: 0 }
    }
    #[inline]
    pub fn next(&mut self) -> u64 {
        let v = draw(self.seed, self.stream, self.idx);
        self.idx += 1;
        v
    }
    /// uniform in 0..n (n > 0)
    #[inline]
    pub fn below(&mut self, n: u64) -> u64 {
        debug_assert!(n > 0);
        // multiply-shift; bias is irrelevant here
        ((self.next() as u128 * n as u128) >> 64) as u64
    }
    /// uniform in lo..=hi
    #[inline]
    pub fn range(&mut self, lo: u64, hi: u64) -> u64 {
        lo + self.below(hi - lo + 1)
    }
    #[inline]
    pub fn chance(&mut self, num: u64, den: u64) -> bool {
        self.below(den) < num
    }
    /// probability in parts-per-million
    #[inline]
    pub fn ppm(&mut self, p: u64) -> bool {
        self.below(1_000_000) < p
    }
    pub fn pick<'a, T>(&mut self, xs: &'a [T]) -> &'a T {
        &xs[self.below(xs.len() as u64) as usize]
    }
    pub fn weighted(&mut self, weights: &[u32]) -> usize {
        let total: u64 = weights.iter().map(|w| *w as u64).sum();
        if total == 0 {
            return 0;
        }
        let mut x = self.below(total);
        for (i, w) in weights.iter().enumerate() {
            if x < *w as u64 {
                return i;
            }
            x -= *w as u64;
        }
        weights.len() - 1
    }
    pub fn shuffle<T>(&mut self, xs: &mut [T]) {
        for i in (1..xs.len()).rev() {
            let j = self.below(i as u64 + 1) as usize;
            xs.swap(i, j);
        }
    }
    pub fn bytes(&mut self, n: usize) -> Vec<u8> {
        let mut v = Vec::with_capacity(n);
        while v.len() < n {
            let x = self.next().to_le_bytes();
            let take = (n - v.len()).min(8);
            v.extend_from_slice(&x[..take]);
        }
        v
    }
}

/// xoshiro256** handed to each Foca instance; seeded from the run seed.
#[derive(Clone, Debug)]
pub struct SimRng {
    s: [u64; 4],
}

impl SimRng {
    pub fn new(seed: u64) -> Self {
        let mut s = [0u64; 4];
        let mut x = seed;
        for v in s.iter_mut() {
            x = mix(x);
            *v = x;
        }
        if s == [0; 4] {
            s[0] = 1;
        }
        SimRng { s }
    }
    #[inline]
    fn step(&mut self) -> u64 {
        let result = self.s[1].wrapping_mul(5).rotate_left(7).wrapping_mul(9);
        let t = self.s[1] << 17;
        self.s[2] ^= self.s[0];
        self.s[3] ^= self.s[1];
        self.s[1] ^= self.s[2];
        self.s[0] ^= self.s[3];
        self.s[2] ^= t;
        self.s[3] = self.s[3].rotate_left(45);
        result
    }
}

impl rand::RngCore for SimRng {
    fn next_u32(&mut self) -> u32 {
        (self.step() >> 32) as u32
    }
    fn next_u64(&mut self) -> u64 {
        self.step()
    }
    fn fill_bytes(&mut self, dst: &mut [u8]) {
        for chunk in dst.chunks_mut(8) {
            let v = self.step().to_le_bytes();
            chunk.copy_from_slice(&v[..chunk.len()]);
        }
    }
}

/// Order-sensitive 64-bit hash accumulator for event logs.
#[derive(Clone, Copy, Debug)]
pub struct LogHash(pub u64);

impl LogHash {
    pub fn new() -> Self {
        LogHash(0x1234_5678_9abc_def0)
    }
    #[inline]
    pub fn u(&mut self, v: u64) {
        self.0 = mix2(self.0, v);
    }
    pub fn bytes(&mut self, b: &[u8]) {
        self.u(b.len() as u64);
        let mut h: u64 = 0xcbf2_9ce4_8422_2325;
        for x in b {
            h ^= *x as u64;
            h = h.wrapping_mul(0x0000_0100_0000_01b3);
        }
        self.u(h);
    }
    pub fn s(&mut self, s: &str) {
        self.bytes(s.as_bytes());
    }
}
