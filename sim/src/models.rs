//! Small executable reference models: SWIM merge (DESIGN 4.2), the input-acceptance rules of
//! handle_data, and the two dissemination backlogs (C15, C16).

use crate::codec::{enc_member, msg_kind, parse_datagram, AnyCodec, CodecKind};
use crate::frame::{Stats, Violation};
use crate::handler::{rel_invalidates, HandlerCfg};
use crate::id::SimId;
use crate::monitors::Told;
use crate::node::{CallRec, Input, Obs, Res};
use bytes::Buf;
use foca::{Codec, Config, Header, Identity, Member, Message, OwnedNotification, State, Timer};

// ---------------------------------------------------------------------------------------------
// 4.2 reference model of membership knowledge, written from SWIM 4.2 and the Identity docs.

#[derive(Clone, Copy, Debug, PartialEq, Eq)]
pub struct Outcome {
    /// the update changed the slot (so it is worth disseminating)
    pub accepted: bool,
    /// the record of that address is active after the update *and* the update was not a loser
    pub update_active: bool,
}

/// Precedence rank inside one identity: Down > higher incarnation > Suspect > Alive.
pub fn supersedes(new_inc: u16, new_state: State, old_inc: u16, old_state: State) -> bool {
    if old_state == State::Down {
        return false;
    }
    if new_state == State::Down {
        return true;
    }
    if new_inc != old_inc {
        return new_inc > old_inc;
    }
    old_state == State::Alive && new_state == State::Suspect
}

/// Merge one update into a table (one slot per address). `own` is the instance's identity: an
/// update for its address under another identity is stored as Down.
pub fn merge(own: SimId, table: &mut Vec<Member<SimId>>, update: &Member<SimId>) -> Outcome {
    debug_assert!(*update.id() != own);
    let update = if update.id().addr == own.addr {
        Member::new(*update.id(), 0, State::Down)
    } else {
        update.clone()
    };
    let active = |m: &Member<SimId>| m.state() != State::Down;
    match table.iter_mut().find(|m| m.id().addr == update.id().addr) {
        None => {
            let a = active(&update);
            table.push(update);
            Outcome { accepted: true, update_active: a }
        }
        Some(slot) => {
            if slot.id() != update.id() {
                if slot.id().win_addr_conflict(update.id()) {
                    return Outcome { accepted: false, update_active: false };
                }
                *slot = update;
                return Outcome { accepted: true, update_active: active(slot) };
            }
            if supersedes(update.incarnation(), update.state(), slot.incarnation(), slot.state()) {
                *slot = update;
                Outcome { accepted: true, update_active: active(slot) }
            } else {
                Outcome { accepted: false, update_active: active(slot) }
            }
        }
    }
}

pub fn sorted(mut t: Vec<Member<SimId>>) -> Vec<Member<SimId>> {
    t.sort_by_key(|m| (m.id().addr, m.id().gen));
    t
}

/// What handle_data looks at before touching any state (documented rejection rules):
/// Some((header, updates)) when the datagram gets past them.
pub fn accepted_view(data: &[u8], own: SimId, cfg: &Config, codec: CodecKind) -> Option<(Header<SimId>, Vec<Member<SimId>>)> {
    if data.len() > cfg.max_packet_size.get() {
        return None;
    }
    let mut c = AnyCodec::new(codec);
    let mut cur: &[u8] = data;
    let h = c.decode_header(&mut cur).ok()?;
    if h.src == own || h.src.addr == own.addr {
        return None;
    }
    let remaining = cur.len();
    if remaining == 1 || (h.message == Message::Announce && remaining > 0) {
        return None;
    }
    let for_us = h.dst == own || (h.message == Message::Announce && h.dst.addr == own.addr);
    if !for_us {
        return None;
    }
    let mut ups = Vec::new();
    if remaining >= 2 && h.message != Message::Broadcast {
        let n = cur.get_u16();
        for _ in 0..n {
            ups.push(c.decode_member(&mut cur).ok()?);
        }
    }
    Some((h, ups))
}

// ---------------------------------------------------------------------------------------------

#[derive(Clone, Debug, PartialEq, Eq)]
pub struct Entry {
    /// address (updates) or key (customs)
    pub key: u32,
    pub version: u8,
    pub data: Vec<u8>,
    pub remaining: usize,
}

fn v(out: &mut Vec<Violation>, property: &'static str, tag: &str, at: u64, detail: String) {
    out.push(Violation { property, tag: tag.to_string(), detail, at });
}

/// Check one filled section against greedy filling in priority order (more remaining
/// transmissions first, then larger), modulo ties between entries of equal priority and size;
/// then account for the transmission.
fn greedy_fill(entries: &mut Vec<Entry>, emitted: &[Vec<u8>], mut space: usize, overhead: usize) -> Result<(), String> {
    // classes in priority order
    let mut order: Vec<usize> = (0..entries.len()).collect();
    order.sort_by(|a, b| {
        let (x, y) = (&entries[*a], &entries[*b]);
        (y.remaining, y.data.len()).cmp(&(x.remaining, x.data.len()))
    });
    let mut used = vec![false; entries.len()];
    let mut e = 0usize; // cursor in emitted
    let mut i = 0usize;
    while i < order.len() {
        let (r, l) = (entries[order[i]].remaining, entries[order[i]].data.len());
        let mut j = i;
        while j < order.len() && entries[order[j]].remaining == r && entries[order[j]].data.len() == l {
            j += 1;
        }
        let t = j - i;
        let cost = l + overhead;
        let c = t.min(space / cost);
        for _ in 0..c {
            let Some(item) = emitted.get(e) else {
                return Err(format!("a pending entry of {l} bytes with {r} transmission(s) left would still fit in the {space} byte(s) left but was omitted"));
            };
            let hit = (i..j).find(|k| !used[order[*k]] && entries[order[*k]].data == *item);
            match hit {
                Some(k) => used[order[k]] = true,
                None => {
                    let pending_elsewhere = entries.iter().any(|x| x.data == *item);
                    return Err(if pending_elsewhere {
                        format!("emitted entry #{e} ({} bytes) jumps the queue: an entry of {l} bytes with {r} transmission(s) left had precedence", item.len())
                    } else {
                        format!("emitted entry #{e} ({} bytes: {}) is not a pending entry", item.len(), crate::node::hex::to_hex(item))
                    });
                }
            }
            e += 1;
            space -= cost;
        }
        i = j;
    }
    if e != emitted.len() {
        let item = &emitted[e];
        let pending = entries.iter().any(|x| x.data == *item);
        return Err(if pending {
            format!("emitted entry #{e} ({} bytes) should not have fitted / was emitted twice", item.len())
        } else {
            format!("emitted entry #{e} ({} bytes: {}) is not a pending entry", item.len(), crate::node::hex::to_hex(item))
        });
    }
    for (k, u) in used.iter().enumerate() {
        if *u {
            entries[k].remaining -= 1;
        }
    }
    entries.retain(|x| x.remaining > 0);
    Ok(())
}

/// Weaker accounting used for custom broadcasts (C16 promises no maximal filling): every emitted
/// item is a distinct pending entry and the section fits the room.
fn subset_fill(entries: &mut Vec<Entry>, emitted: &[Vec<u8>], space: usize, overhead: usize) -> Result<(), String> {
    let mut used = vec![false; entries.len()];
    let mut total = 0usize;
    for (e, item) in emitted.iter().enumerate() {
        total += item.len() + overhead;
        match (0..entries.len()).find(|k| !used[*k] && entries[*k].data == *item) {
            Some(k) => used[k] = true,
            None => {
                return Err(if entries.iter().any(|x| x.data == *item) {
                    format!("item #{e} ({} bytes) emitted twice in one datagram", item.len())
                } else {
                    format!("item #{e} ({} bytes: {}) is not a pending item (never accepted, already fully transmitted, or invalidated)", item.len(), crate::node::hex::to_hex(&item[..item.len().min(24)]))
                });
            }
        }
    }
    if total > space {
        return Err(format!("custom section of {total} bytes exceeds the {space} bytes of room"));
    }
    for (k, u) in used.iter().enumerate() {
        if *u {
            entries[k].remaining -= 1;
        }
    }
    entries.retain(|x| x.remaining > 0);
    Ok(())
}

fn multiset(mut xs: Vec<(Vec<u8>, usize)>) -> Vec<(Vec<u8>, usize)> {
    xs.sort();
    xs
}

fn self_update_in(told: &Told, own: &[SimId]) -> bool {
    told.updates.iter().skip(if told.header.is_some() { 1 } else { 0 }).any(|m| own.contains(m.id()) && m.state() != State::Alive)
}

// ---------------------------------------------------------------------------------------------
// C15

pub struct UpdatesModel {
    pub entries: Vec<Entry>,
}

impl UpdatesModel {
    pub fn new() -> Self {
        UpdatesModel { entries: Vec::new() }
    }

    fn insert(&mut self, m: &Member<SimId>, cfg: &Config, codec: CodecKind) {
        let addr = m.id().addr as u32;
        self.entries.retain(|x| x.key != addr);
        self.entries.push(Entry { key: addr, version: 0, data: enc_member(codec, m), remaining: cfg.max_transmissions.get() as usize });
    }

    fn resync(&mut self, post: &Obs, codec: CodecKind) {
        self.entries.clear();
        for (d, r) in &post.snap.updates {
            let mut cur: &[u8] = d;
            let key = AnyCodec::new(codec).decode_member(&mut cur).map(|m| m.id().addr as u32).unwrap_or(u32::MAX);
            self.entries.push(Entry { key, version: 0, data: d.clone(), remaining: *r });
        }
    }

    #[allow(clippy::too_many_arguments)]
    pub fn step(&mut self, pre: &Obs, rec: &CallRec, post: &Obs, told: &Told, cfg: &Config, codec: CodecKind, at: u64, out: &mut Vec<Violation>, stats: &mut Stats) {
        let own_chain: Vec<SimId> = {
            let mut c = vec![pre.id, post.id];
            for n in rec.notes() {
                if let OwnedNotification::Rejoin(id) = n {
                    c.push(*id);
                }
            }
            c
        };
        // calls in which inserts and transmissions interleave are not modelled exactly
        let complex = self_update_in(told, &own_chain) || !rec.result.is_ok() && !matches!(rec.input, Input::Data(_));
        if complex {
            stats.inc("c15_resync_complex_call");
            // still: whatever is emitted must be pending before or accepted in this very call
            self.resync(post, codec);
            return;
        }
        // 1. inserts, in the order the call makes them
        let mut table: Vec<Member<SimId>> = pre.state.clone();
        let mut model_table_valid = true;
        match &rec.input {
            Input::Data(d) => {
                if let Some((h, ups)) = accepted_view(d, pre.id, cfg, codec) {
                    let hm = Member::new(h.src, h.src_incarnation, State::Alive);
                    let o = merge(pre.id, &mut table, &hm);
                    if o.accepted {
                        self.insert(&hm, cfg, codec);
                    }
                    if o.update_active {
                        for u in &ups {
                            if *u.id() == pre.id {
                                continue; // Alive about ourselves: nothing
                            }
                            let o = merge(pre.id, &mut table, u);
                            if o.accepted {
                                let stored = if u.id().addr == pre.id.addr { Member::new(*u.id(), 0, State::Down) } else { u.clone() };
                                self.insert(&stored, cfg, codec);
                            }
                        }
                    }
                }
            }
            Input::ApplyMany(ms, bcast) => {
                for u in ms {
                    if *u.id() == pre.id {
                        continue;
                    }
                    let o = merge(pre.id, &mut table, u);
                    if o.accepted && *bcast {
                        let stored = if u.id().addr == pre.id.addr { Member::new(*u.id(), 0, State::Down) } else { u.clone() };
                        self.insert(&stored, cfg, codec);
                    }
                }
            }
            Input::Timer(Timer::ProbeRandomMember(_)) => {
                // a failed probe turns exactly one Alive record into Suspect at the same incarnation
                // (with timers out of order the probed identity may even have been forgotten and its
                // address taken by an older generation in the meantime: then the record is replaced)
                for new in &post.state {
                    if let Some(old) = pre.slot(new.id().addr) {
                        if old != new && new.state() == State::Suspect {
                            self.insert(new, cfg, codec);
                        }
                    }
                }
                table = post.state.clone();
            }
            Input::Timer(Timer::ChangeSuspectToDown { member_id, incarnation, .. }) => {
                // (a crafted timer may name another identity of a known address: the record is replaced)
                let became_down = pre.slot(member_id.addr).is_some_and(|m| m.id() != member_id || m.state() != State::Down)
                    && post.slot(member_id.addr).is_some_and(|m| m.id() == member_id && m.state() == State::Down)
                    && pre.slot(member_id.addr) != post.slot(member_id.addr);
                if became_down {
                    self.insert(&Member::new(*member_id, *incarnation, State::Down), cfg, codec);
                }
                table = post.state.clone();
            }
            Input::Timer(Timer::RemoveDown(_)) => {
                table = post.state.clone();
            }
            Input::Leave => {
                if rec.result.is_ok() {
                    self.insert(&Member::new(pre.id, 0, State::Down), cfg, codec);
                }
            }
            Input::ChangeIdentity(_) => {
                if rec.result.is_ok() && !pre.undead() {
                    self.insert(&Member::new(pre.id, 0, State::Down), cfg, codec);
                }
            }
            _ => {}
        }
        // an automatic rejoin (TurnUndead message) declares the previous identity down
        if !matches!(rec.input, Input::ChangeIdentity(_)) {
            let mut prev = pre.id;
            let mut undead = pre.undead();
            for n in rec.notes() {
                match n {
                    OwnedNotification::Rejoin(new) => {
                        if !undead {
                            self.insert(&Member::new(prev, 0, State::Down), cfg, codec);
                        }
                        undead = false;
                        prev = *new;
                    }
                    OwnedNotification::Defunct => undead = true,
                    _ => {}
                }
            }
        }
        if model_table_valid && sorted(table.clone()) != post.state {
            // referee is C01; here we only need to stay in step with the implementation
            v(out, "C01", "C01/merge-model-divergence", at, format!(
                "reference merge of the updates in {} gives {:?}, the instance holds {:?}", rec.input.kind(), sorted(table), post.state));
            model_table_valid = false;
        }
        let _ = model_table_valid;

        // 2. transmissions
        for (_to, data) in rec.sends() {
            let Ok(p) = parse_datagram(codec, data) else { continue };
            let kind = msg_kind(&p.header.message);
            let consumes = !matches!(p.header.message, Message::Feed | Message::Announce | Message::TurnUndead | Message::Broadcast);
            if !consumes {
                continue;
            }
            let Some(ms) = &p.members else {
                // no room for a member section: nothing may be consumed; must be true lack of room
                if cfg.max_packet_size.get().saturating_sub(p.header_len) > 2 {
                    v(out, "C15", "C15/section-missing", at, format!("{kind}: {} bytes left after the header but no update section", cfg.max_packet_size.get() - p.header_len));
                }
                continue;
            };
            stats.inc("c15_piggyback_datagrams");
            let emitted: Vec<Vec<u8>> = ms.iter().map(|(_, r)| data[r.clone()].to_vec()).collect();
            let space = cfg.max_packet_size.get().saturating_sub(p.header_len + 2);
            if !emitted.is_empty() {
                stats.inc("c15_nonempty_sections");
            }
            if self.entries.iter().any(|e| e.data.len() > space) && !self.entries.is_empty() {
                stats.inc("c15_entry_did_not_fit");
            }
            if let Err(e) = greedy_fill(&mut self.entries, &emitted, space, 0) {
                v(out, "C15", "C15/piggyback-content", at, format!("{kind} ({} updates, {space} bytes of room): {e}", emitted.len()));
                self.resync(post, codec);
                return;
            }
        }
        // 3. compare
        if post.updates_backlog != self.entries.len() {
            v(out, "C15", "C15/backlog-size", at, format!("updates_backlog() = {} but {} update(s) should be pending after {}", post.updates_backlog, self.entries.len(), rec.input.kind()));
            self.resync(post, codec);
            return;
        }
        let mine = multiset(self.entries.iter().map(|e| (e.data.clone(), e.remaining)).collect());
        let theirs = multiset(post.snap.updates.clone());
        if mine != theirs {
            let show = |xs: &Vec<(Vec<u8>, usize)>| xs.iter().map(|(d, r)| format!("{}x{}", crate::node::hex::to_hex(d), r)).collect::<Vec<_>>().join(",");
            v(out, "C15", "C15/backlog-content", at, format!("after {}: expected pending [{}], instance holds [{}]", rec.input.kind(), show(&mine), show(&theirs)));
            self.resync(post, codec);
        }
        let mut addrs: Vec<u32> = self.entries.iter().map(|e| e.key).collect();
        addrs.sort();
        addrs.dedup();
        if addrs.len() != self.entries.len() {
            v(out, "C15", "C15/two-updates-one-address", at, "backlog holds two updates for one address".into());
        }
    }
}

// ---------------------------------------------------------------------------------------------
// C16

pub struct CustomModel {
    pub entries: Vec<Entry>,
    pub hcfg: HandlerCfg,
}

impl CustomModel {
    pub fn new(hcfg: HandlerCfg) -> Self {
        CustomModel { entries: Vec::new(), hcfg }
    }

    fn resync(&mut self, post: &Obs) {
        self.entries.clear();
        for (d, r) in &post.snap.custom_broadcasts {
            self.entries.push(Entry { key: d.first().copied().unwrap_or(0) as u32, version: d.get(1).copied().unwrap_or(0), data: d.clone(), remaining: *r });
        }
    }

    #[allow(clippy::too_many_arguments)]
    pub fn step(&mut self, pre: &Obs, rec: &CallRec, post: &Obs, told: &Told, cfg: &Config, codec: CodecKind, at: u64, out: &mut Vec<Violation>, stats: &mut Stats) {
        let own_chain = [pre.id, post.id];
        let complex = self_update_in(told, &own_chain);
        // receiver side: the handler sees exactly the items of an accepted datagram, once each, in order
        if let Input::Data(d) = &rec.input {
            if let Some(p) = &told.parsed {
                let sender_active = post.active.iter().any(|m| *m.id() == p.header.src);
                let gets_through = accepted_view(d, pre.id, cfg, codec).is_some() && sender_active && rec.result.is_ok();
                if gets_through {
                    stats.inc("c16_datagrams_with_items_delivered");
                    let want: Vec<(Vec<u8>, Option<SimId>)> = p.items.iter().map(|r| (d[r.clone()].to_vec(), Some(p.header.src))).collect();
                    let got: Vec<(Vec<u8>, Option<SimId>)> = rec.hcalls.iter().map(|h| (h.data.clone(), h.sender)).collect();
                    if want != got {
                        v(out, "C16", "C16/handler-did-not-see-exactly-the-items", at, format!(
                            "datagram from {} carries {} item(s), handler saw {} call(s)", p.header.src, want.len(), got.len()));
                    }
                    stats.add("c16_items_received", want.len() as u64);
                }
            }
        }
        if complex {
            stats.inc("c16_resync_complex_call");
            self.resync(post);
            return;
        }
        // inserts: every item the handler accepted in this call
        let max_tx = cfg.max_transmissions.get() as usize;
        let is_broadcast_call = matches!(rec.input, Input::Broadcast);
        // in handle_data items are handled before the reply is sent; add_broadcast sends nothing
        for h in &rec.hcalls {
            if h.accepted == Some(true) {
                let (k, ver) = (h.data[0], h.data[1]);
                let rel = self.hcfg.rel;
                self.entries.retain(|e| !rel_invalidates(rel, k, ver, e.key as u8, e.version));
                self.entries.push(Entry { key: k as u32, version: ver, data: h.data.clone(), remaining: max_tx });
                stats.inc("c16_items_accepted");
            }
        }
        let mut broadcast_dsts: Vec<SimId> = Vec::new();
        let backlog_before_sends = self.entries.len();
        for (to, data) in rec.sends() {
            let Ok(p) = parse_datagram(codec, data) else { continue };
            let kind = msg_kind(&p.header.message);
            let may_carry = !matches!(p.header.message, Message::Announce | Message::TurnUndead) && self.hcfg.allows(to.addr);
            let emitted: Vec<Vec<u8>> = p.items.iter().map(|r| data[r.clone()].to_vec()).collect();
            if is_broadcast_call {
                if !matches!(p.header.message, Message::Broadcast) {
                    v(out, "C16", "C16/broadcast-call-sent-other-kind", at, format!("broadcast() sent a {kind}"));
                }
                if !self.hcfg.allows(to.addr) {
                    v(out, "C16", "C16/broadcast-to-ineligible", at, format!("broadcast() chose {to} for which should_add_broadcast_data is false"));
                }
                if !pre.active.iter().any(|m| m.id() == to) {
                    v(out, "C16", "C16/broadcast-to-inactive", at, format!("broadcast() chose {to} which is not an active member"));
                }
                if broadcast_dsts.contains(to) {
                    v(out, "C16", "C16/broadcast-duplicate-destination", at, format!("broadcast() chose {to} twice"));
                }
                if self.entries.is_empty() {
                    v(out, "C16", "C16/broadcast-after-drained", at, "broadcast() kept sending after the backlog was drained".into());
                }
                broadcast_dsts.push(*to);
            }
            if !may_carry {
                if !emitted.is_empty() {
                    v(out, "C16", "C16/items-where-not-allowed", at, format!("{kind} to {to} carries {} custom item(s)", emitted.len()));
                }
                continue;
            }
            // room left when the custom section starts
            let start = p.items.first().map(|r| r.start - 2).unwrap_or(data.len());
            let space = cfg.max_packet_size.get().saturating_sub(start);
            if !emitted.is_empty() {
                stats.inc("c16_datagrams_with_items_sent");
                stats.add("c16_items_sent", emitted.len() as u64);
            }
            if let Err(e) = subset_fill(&mut self.entries, &emitted, space, 2) {
                v(out, "C16", "C16/custom-section-content", at, format!("{kind} to {to} ({} item(s), {space} bytes of room): {e}", emitted.len()));
                self.resync(post);
                return;
            }
        }
        if is_broadcast_call {
            if backlog_before_sends == 0 && rec.sends().count() > 0 {
                v(out, "C16", "C16/broadcast-with-empty-backlog", at, "broadcast() sent datagrams with an empty backlog".into());
            }
            if broadcast_dsts.len() > cfg.num_indirect_probes.get() {
                v(out, "C16", "C16/broadcast-fanout", at, format!("broadcast() sent to {} members, num_indirect_probes is {}", broadcast_dsts.len(), cfg.num_indirect_probes.get()));
            }
            stats.inc("c16_broadcast_calls");
        }
        if post.custom_backlog != self.entries.len() {
            v(out, "C16", "C16/backlog-size", at, format!("custom_broadcast_backlog() = {} but {} item(s) should be pending after {}", post.custom_backlog, self.entries.len(), rec.input.kind()));
            self.resync(post);
            return;
        }
        let mine = multiset(self.entries.iter().map(|e| (e.data.clone(), e.remaining)).collect());
        let theirs = multiset(post.snap.custom_broadcasts.clone());
        if mine != theirs {
            v(out, "C16", "C16/backlog-content", at, format!("after {}: model and instance disagree on pending custom items ({} vs {})", rec.input.kind(), mine.len(), theirs.len()));
            self.resync(post);
        }
        let _ = Res::Ok;
    }
}
