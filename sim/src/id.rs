//! Simulated identities. Equality is (addr, gen); conflict order is "higher generation wins",
//! a strict total order per address. Renewal policy and encoding shape are per-run settings held
//! in a thread-local (each simulated run lives entirely on one thread).

use foca::Identity;
use std::cell::Cell;

#[derive(Clone, Copy, Debug)]
pub struct SimId {
    pub addr: u16,
    pub gen: u32,
    /// Local-only attribute that is NOT part of the identity's equality, order or wire form (like the
    /// `rejoinable` flag of the identity type in foca's own tests): bit 0 set = this value cannot renew itself.
    /// Always 0 except in the value handed to a change_identity call that must fail with SameIdentity (C17):
    /// an instance that keeps the refused value instead of its own behaves differently later on.
    pub shade: u8,
}

impl PartialEq for SimId {
    fn eq(&self, o: &Self) -> bool {
        self.addr == o.addr && self.gen == o.gen
    }
}
impl Eq for SimId {}
impl std::hash::Hash for SimId {
    fn hash<H: std::hash::Hasher>(&self, h: &mut H) {
        (self.addr, self.gen).hash(h)
    }
}
impl PartialOrd for SimId {
    fn partial_cmp(&self, o: &Self) -> Option<std::cmp::Ordering> {
        Some(self.cmp(o))
    }
}
impl Ord for SimId {
    fn cmp(&self, o: &Self) -> std::cmp::Ordering {
        (self.addr, self.gen).cmp(&(o.addr, o.gen))
    }
}

/// JSON form (replay files): plain fields; binary form (the bundled codecs): `WireId`, which never carries the shade
#[derive(serde::Serialize, serde::Deserialize)]
struct PlainId {
    addr: u16,
    gen: u32,
    #[serde(default, skip_serializing_if = "is_zero")]
    shade: u8,
}
fn is_zero(x: &u8) -> bool {
    *x == 0
}
impl serde::Serialize for SimId {
    fn serialize<S: serde::Serializer>(&self, s: S) -> Result<S::Ok, S::Error> {
        if s.is_human_readable() {
            PlainId { addr: self.addr, gen: self.gen, shade: self.shade }.serialize(s)
        } else {
            WireId::from(*self).serialize(s)
        }
    }
}
impl<'de> serde::Deserialize<'de> for SimId {
    fn deserialize<D: serde::Deserializer<'de>>(d: D) -> Result<Self, D::Error> {
        if d.is_human_readable() {
            let p = PlainId::deserialize(d)?;
            Ok(SimId { addr: p.addr, gen: p.gen, shade: p.shade })
        } else {
            Ok(WireId::deserialize(d)?.into())
        }
    }
}

#[derive(Clone, Copy, PartialEq, Eq, Debug, serde::Serialize, serde::Deserialize)]
pub enum RenewMode {
    /// renew() yields None for everyone
    Never,
    /// renew() yields gen+1 for addresses in the mask
    Next,
    /// renew() yields an identical identity (rejoin must fail)
    Same,
    /// renew() yields an identity that loses the conflict (rejoin must fail)
    Losing,
    /// renew() yields a different identity that neither wins nor loses (only the top bit of the generation
    /// differs, which the conflict order ignores under this policy): rejoin must fail as well
    Tie,
}

#[derive(Clone, Copy, Debug, PartialEq, Eq, serde::Serialize, serde::Deserialize)]
pub struct Policy {
    pub renew: RenewMode,
    /// bit (addr % 64): this address is renewable (only meaningful unless Never)
    pub mask: u64,
    /// variable-length identity encodings
    pub var_ids: bool,
}

impl Policy {
    pub const fn never() -> Self {
        Policy { renew: RenewMode::Never, mask: 0, var_ids: false }
    }
    pub const fn all_next() -> Self {
        Policy { renew: RenewMode::Next, mask: u64::MAX, var_ids: false }
    }
    pub fn renewable(&self, addr: u16) -> bool {
        self.renew != RenewMode::Never && (self.mask >> (addr % 64)) & 1 == 1
    }
}

thread_local! {
    static POLICY: Cell<Policy> = const { Cell::new(Policy::never()) };
    /// calls of win_addr_conflict outside its contract (different addresses, or an identity against itself)
    static CONFLICT_CONTRACT_BREACHES: Cell<u64> = const { Cell::new(0) };
}

pub fn conflict_contract_breaches() -> u64 {
    CONFLICT_CONTRACT_BREACHES.with(|c| c.get())
}

pub fn set_policy(p: Policy) {
    POLICY.with(|c| c.set(p));
}
pub fn policy() -> Policy {
    POLICY.with(|c| c.get())
}

/// ignored by the conflict order under RenewMode::Tie
pub const TIE_BIT: u32 = 0x8000_0000;

impl SimId {
    pub const fn new(addr: u16, gen: u32) -> Self {
        SimId { addr, gen, shade: 0 }
    }
    pub const fn with_shade(self, shade: u8) -> Self {
        SimId { addr: self.addr, gen: self.gen, shade }
    }
    /// Length of the metadata blob carried by this identity when variable encodings are on.
    pub fn meta_len(&self) -> usize {
        if policy().var_ids {
            (crate::prng::mix2(self.addr as u64, self.gen as u64) % 25) as usize
        } else {
            0
        }
    }
    pub fn meta_byte(&self, i: usize) -> u8 {
        (self.addr as u8) ^ (self.gen as u8).wrapping_mul(7) ^ (i as u8).wrapping_mul(31) ^ 0x5a
    }
    /// What renew() yields under the current policy
    pub fn renewed(&self) -> Option<SimId> {
        let p = policy();
        if !p.renewable(self.addr) || self.shade & 1 == 1 {
            return None;
        }
        match p.renew {
            RenewMode::Never => None,
            RenewMode::Next => self.gen.checked_add(1).map(|g| SimId::new(self.addr, g)),
            RenewMode::Same => Some(*self),
            RenewMode::Losing => Some(SimId::new(self.addr, self.gen.saturating_sub(1))),
            RenewMode::Tie => Some(SimId::new(self.addr, self.gen ^ TIE_BIT)),
        }
    }
}

impl Identity for SimId {
    type Addr = u16;
    fn renew(&self) -> Option<Self> {
        self.renewed()
    }
    fn addr(&self) -> u16 {
        self.addr
    }
    fn win_addr_conflict(&self, adversary: &Self) -> bool {
        // the bundled SocketAddr identities panic here ("there'll never be a conflict"): foca must only
        // ask for distinct identities that share an address
        if self.addr != adversary.addr || self == adversary {
            CONFLICT_CONTRACT_BREACHES.with(|c| c.set(c.get() + 1));
        }
        if policy().renew == RenewMode::Tie {
            // a partial order: identities that differ in the top bit only are incomparable
            (self.gen & !TIE_BIT) > (adversary.gen & !TIE_BIT)
        } else {
            self.gen > adversary.gen
        }
    }
}

impl std::fmt::Display for SimId {
    fn fmt(&self, f: &mut std::fmt::Formatter<'_>) -> std::fmt::Result {
        write!(f, "{}.{}", self.addr, self.gen)
    }
}

/// Serde shape used by the bundled (bincode / postcard) codecs: carries the metadata blob so that
/// encodings are variable-length when the policy asks for it.
#[derive(Clone, Debug, serde::Serialize, serde::Deserialize)]
pub struct WireId {
    addr: u16,
    gen: u32,
    meta: Vec<u8>,
}

impl From<SimId> for WireId {
    fn from(id: SimId) -> Self {
        let n = id.meta_len();
        WireId { addr: id.addr, gen: id.gen, meta: (0..n).map(|i| id.meta_byte(i)).collect() }
    }
}
impl From<WireId> for SimId {
    fn from(w: WireId) -> Self {
        SimId { addr: w.addr, gen: w.gen, shade: 0 }
    }
}
