//! Per-node monitors (DESIGN 4.3). They look only at observations: the input of a call, its
//! result, its ordered effects, and the public state (plus the read-only hook snapshot) before
//! and after. Each violation names the property it belongs to.

use crate::codec::{msg_kind, parse_datagram, CodecKind, Parsed};
use crate::frame::{Stats, Violation};
use crate::handler::Effect;
use crate::id::SimId;
use crate::models::{CustomModel, UpdatesModel};
use crate::node::{CallRec, ErrKind, Input, Obs, Res, Setup};
use foca::{Config, Member, Message, OwnedNotification, State, Timer};
use std::collections::{BTreeMap, BTreeSet};

#[derive(Clone, Copy, Debug, PartialEq, Eq)]
pub enum Conn {
    Idle0,
    Active,
    Defunct,
}

pub struct Monitors {
    pub codec: CodecKind,
    pub cfg: Config,
    pub hcfg: crate::handler::HandlerCfg,
    // C08
    pub up: BTreeSet<SimId>,
    pub conn: Conn,
    // C09
    pub told_addrs: BTreeSet<u16>,
    // C10
    pub told_inc: BTreeMap<SimId, u16>,
    /// identities this instance has used (own tenures)
    pub own_ids: BTreeSet<SimId>,
    // C13
    pub epochs: u64,
    /// outstanding genuine timers: (timer, epoch at issue)
    pub ledger: Vec<(Timer<SimId>, u64)>,
    /// true when the driver promises: every scheduled timer is delivered exactly once, none crafted
    pub exact_timers: bool,
    /// set once a timer has been outstanding across >= 256 epoch changes (token width): the
    /// premise of C13 no longer holds for this instance
    pub token_wrapped: bool,
    // C15 / C16
    pub updates_model: UpdatesModel,
    pub custom_model: CustomModel,
    pub model_enabled: bool,
    // C14
    /// (identity, is-active) of every record while the probe window below was collected
    pub rr_sig: Vec<(SimId, bool)>,
    /// targets of the probe rounds since the set of known members last changed
    pub rr_window: Vec<SimId>,
    // C12 (probe rounds)
    pub round: Option<Round>,
    /// number carried by the Ping of the previous effective probe round of this epoch
    pub last_probe_number: Option<u8>,
    // C01
    /// per address: the furthest record seen since that address was last legitimately forgotten
    pub c01_shadow: BTreeMap<u16, Member<SimId>>,
}

/// The probe round in progress, as an observer reconstructs it from the calls alone.
#[derive(Clone, Debug)]
pub struct Round {
    pub target: SimId,
    /// incarnation of the target's record when the round started
    pub inc: u16,
    pub number: u8,
    /// members asked to probe indirectly in this round
    pub asked: Vec<SimId>,
    pub evidence: bool,
    /// the indirect-probe timer of this round has fired (once)
    pub indirect_done: bool,
    /// something happened that only an adversarial runtime produces (indirect timer twice, another
    /// round's indirect timer with the current token): the round is not judged
    pub dirty: bool,
}

fn v(out: &mut Vec<Violation>, property: &'static str, tag: &str, at: u64, detail: String) {
    out.push(Violation { property, tag: tag.to_string(), detail, at });
}

pub fn is_periodic_or_probe(t: &Timer<SimId>) -> bool {
    !matches!(t, Timer::RemoveDown(_))
}

/// What an input tells the instance about other members: (identity, incarnation) pairs and
/// the members it mentions. Uses the independent parser; undecodable input tells nothing.
pub struct Told {
    /// strict parse by the documented grammar
    pub parsed: Option<Parsed>,
    /// header decoded leniently (present whenever the header itself decodes)
    pub header: Option<foca::Header<SimId>>,
    pub updates: Vec<Member<SimId>>,
}

pub fn told_by(input: &Input, codec: CodecKind) -> Told {
    match input {
        Input::Data(d) => match parse_datagram(codec, d) {
            Ok(p) => {
                let mut ups = Vec::new();
                ups.push(Member::new(p.header.src, p.header.src_incarnation, State::Alive));
                if let Some(ms) = &p.members {
                    ups.extend(ms.iter().map(|(m, _)| m.clone()));
                }
                Told { header: Some(p.header.clone()), parsed: Some(p), updates: ups }
            }
            Err(_) => {
                // header may still be decodable; be generous (upper bounds only use this)
                let mut cur: &[u8] = d;
                let mut c = crate::codec::AnyCodec::new(codec);
                let mut ups = Vec::new();
                let mut header = None;
                if let Ok(h) = foca::Codec::decode_header(&mut c, &mut cur) {
                    ups.push(Member::new(h.src, h.src_incarnation, State::Alive));
                    let is_broadcast = matches!(h.message, Message::Broadcast);
                    header = Some(h);
                    if cur.len() >= 2 && !is_broadcast {
                        let n = u16::from_be_bytes([cur[0], cur[1]]);
                        cur = &cur[2..];
                        for _ in 0..n {
                            match foca::Codec::decode_member(&mut c, &mut cur) {
                                Ok(m) => ups.push(m),
                                Err(_) => break,
                            }
                        }
                    }
                }
                Told { parsed: None, header, updates: ups }
            }
        },
        Input::ApplyMany(ms, _) => Told { parsed: None, header: None, updates: ms.clone() },
        // a (possibly crafted) suspicion timeout names an identity and an incarnation
        Input::Timer(Timer::ChangeSuspectToDown { member_id, incarnation, .. }) => {
            Told { parsed: None, header: None, updates: vec![Member::new(*member_id, *incarnation, State::Down)] }
        }
        _ => Told { parsed: None, header: None, updates: Vec::new() },
    }
}

impl Monitors {
    pub fn new(setup: &Setup, obs: &Obs) -> Monitors {
        let mut own = BTreeSet::new();
        own.insert(obs.id);
        Monitors {
            codec: setup.codec,
            cfg: setup.cfg.clone(),
            hcfg: setup.hcfg,
            up: BTreeSet::new(),
            conn: Conn::Idle0,
            told_addrs: BTreeSet::new(),
            told_inc: BTreeMap::new(),
            own_ids: own,
            epochs: 0,
            ledger: Vec::new(),
            exact_timers: false,
            token_wrapped: false,
            updates_model: UpdatesModel::new(),
            custom_model: CustomModel::new(setup.hcfg),
            model_enabled: true,
            rr_sig: Vec::new(),
            rr_window: Vec::new(),
            round: None,
            last_probe_number: None,
            c01_shadow: BTreeMap::new(),
        }
    }

    pub fn step(&mut self, pre: &Obs, rec: &CallRec, post: &Obs, at: u64, out: &mut Vec<Violation>, stats: &mut Stats) {
        let codec = self.codec;
        let told = told_by(&rec.input, codec);
        for m in &told.updates {
            self.told_addrs.insert(m.id().addr);
            let e = self.told_inc.entry(*m.id()).or_insert(0);
            if m.incarnation() > *e {
                *e = m.incarnation();
            }
        }
        if let Input::Announce(dst) = &rec.input {
            // the user names an identity; nothing is learnt, but it is a legitimate destination
            let _ = dst;
        }
        if let (Input::SetConfig(c), Res::Ok) = (&rec.input, rec.result) {
            self.cfg = c.clone();
        }
        if let (Input::ChangeIdentity(id), Res::Ok) = (&rec.input, rec.result) {
            self.own_ids.insert(*id);
        }
        self.own_ids.insert(post.id);
        // identities the instance went through inside this call (several renewals in one call)
        for n in rec.notes() {
            if let OwnedNotification::Rejoin(id) = n {
                self.own_ids.insert(*id);
            }
        }

        // stale genuine timer?  (decided before the ledger is updated)
        let mut delivered_stale = false;
        let mut delivered_genuine = false;
        // epochs that have gone by since a genuine timer was issued (None: not a timer this instance scheduled)
        let mut genuine_age: Option<u64> = None;
        if let Input::Timer(t) = &rec.input {
            if let Some(pos) = self.ledger.iter().position(|(x, _)| x == t) {
                let (_, issued) = self.ledger.remove(pos);
                delivered_genuine = true;
                genuine_age = Some(self.epochs - issued);
                if is_periodic_or_probe(t) && issued != self.epochs && self.epochs - issued < 256 {
                    delivered_stale = true;
                }
            }
        }

        self.check_sends(pre, rec, post, &told, delivered_genuine, at, out, stats);
        self.check_relays(pre, rec, post, &told, at, out, stats);
        self.check_suspicion_timeout(pre, rec, post, genuine_age, at, out, stats);
        self.check_round_robin(pre, rec, post, at, out, stats);
        self.check_rejections(pre, rec, post, at, out, stats);
        self.check_probe_rounds(pre, rec, post, &told, at, out, stats);
        self.check_precedence_memory(pre, rec, post, at, out);
        self.check_notifications_and_epochs(pre, rec, post, &told, delivered_genuine, at, out, stats);
        self.check_table(pre, rec, post, &told, at, out);
        self.check_incarnation(pre, rec, post, &told, at, out, stats);

        if delivered_stale {
            stats.inc("c13_stale_timer_delivered");
            if !rec.no_effects() || rec.result != Res::Ok || pre != post {
                v(out, "C13", "C13/stale-timer-had-effect", at, format!(
                    "timer {:?} issued before the latest Idle/Defunct/identity change: result {:?}, {} effect(s), state changed: {}",
                    rec.input, rec.result, rec.fx.len(), pre != post));
            }
        }
        let _ = delivered_genuine;

        if self.ledger.iter().any(|(t, e)| is_periodic_or_probe(t) && self.epochs - *e >= 250) {
            if !self.token_wrapped {
                stats.inc("c13_premise_broken_token_wrapped");
            }
            self.token_wrapped = true;
        }
        if self.exact_timers && !self.token_wrapped {
            self.check_timer_ledger(post, at, out, stats);
        }

        if self.model_enabled {
            let cfg = self.cfg.clone();
            self.updates_model.step(pre, rec, post, &told, &cfg, codec, at, out, stats);
            self.custom_model.step(pre, rec, post, &told, &cfg, codec, at, out, stats);
        }
    }

    // ---- C07 / C19 / parts of C10 ---------------------------------------------------------------
    #[allow(clippy::too_many_arguments)]
    fn check_sends(&mut self, pre: &Obs, rec: &CallRec, post: &Obs, told: &Told, genuine_timer: bool, at: u64, out: &mut Vec<Violation>, stats: &mut Stats) {
        let codec = self.codec;
        // chain of identities the instance went through in this call
        let mut chain: Vec<SimId> = vec![pre.id];
        if let (Input::ChangeIdentity(id), Res::Ok) = (&rec.input, rec.result) {
            chain.push(*id);
        }
        for n in rec.notes() {
            if let OwnedNotification::Rejoin(id) = n {
                if chain.last() != Some(id) {
                    chain.push(*id);
                }
            }
        }
        if chain.last() != Some(&post.id) {
            chain.push(post.id);
        }
        let mut chain_pos = 0usize;
        let mut last_inc: Option<(SimId, u16)> = None;
        let max_packet = match (&rec.input, rec.result) {
            _ => self.cfg.max_packet_size.get(),
        };
        for (to, data) in rec.sends() {
            stats.inc("datagrams_checked");
            if data.len() > max_packet {
                v(out, "C07", "C07/oversize", at, format!("{} bytes > max_packet_size {}", data.len(), max_packet));
            }
            let p = match parse_datagram(codec, data) {
                Ok(p) => p,
                Err(e) => {
                    v(out, "C07", "C07/malformed", at, format!("datagram to {to} does not parse: {e} (len {})", data.len()));
                    continue;
                }
            };
            let kind = msg_kind(&p.header.message);
            stats.inc(&format!("sent_{kind}"));
            if p.header.dst != *to {
                v(out, "C07", "C07/dst-mismatch", at, format!("{kind}: header.dst {} but handed over for {}", p.header.dst, to));
            }
            // source walks forward along the identity chain
            match chain[chain_pos..].iter().position(|c| *c == p.header.src) {
                Some(off) => chain_pos += off,
                None => v(out, "C07", "C07/src-not-current-identity", at, format!("{kind}: header.src {} not the sender's identity (chain {:?})", p.header.src, chain)),
            }
            // incarnation within what the instance had before/after this call (hook cross-check)
            let inc = p.header.src_incarnation;
            let (lo, hi) = if p.header.src == pre.id && p.header.src == post.id && chain.len() == 1 {
                (pre.snap.incarnation, post.snap.incarnation)
            } else if p.header.src == post.id {
                (0, post.snap.incarnation)
            } else if p.header.src == pre.id {
                (pre.snap.incarnation, u16::MAX)
            } else {
                (0, u16::MAX)
            };
            if inc < lo || inc > hi {
                v(out, "C07", "C07/src-incarnation", at, format!("{kind}: src_incarnation {inc} outside [{lo},{hi}] of the sender"));
            }
            if let Some((lid, linc)) = last_inc {
                if lid == p.header.src && inc < linc {
                    v(out, "C10", "C10/incarnation-decreased-in-call", at, format!("{kind}: header incarnation {inc} after {linc}"));
                }
            }
            last_inc = Some((p.header.src, inc));

            if matches!(p.header.message, Message::Feed) {
                if let Some(ms) = &p.members {
                    stats.inc("feeds_checked");
                    for (m, _) in ms {
                        let in_table = post.active.iter().any(|a| a == m);
                        if !in_table {
                            v(out, "C07", "C07/feed-non-active", at, format!("Feed lists {:?} which is not an active record of the sender", m));
                        }
                        if m.id() == to || m.id().addr == to.addr {
                            v(out, "C07", "C07/feed-lists-receiver", at, format!("Feed to {to} lists {:?}", m));
                        }
                        if self.own_ids.contains(m.id()) && *m.id() == post.id {
                            v(out, "C07", "C07/feed-lists-sender", at, format!("Feed lists the sender {:?}", m));
                        }
                    }
                }
            }
            // C10: never tell about others at an incarnation above what we were told
            if let Some(ms) = &p.members {
                for (m, _) in ms {
                    if self.own_ids.contains(m.id()) {
                        continue;
                    }
                    let known = self.told_inc.get(m.id()).copied();
                    match known {
                        Some(k) if m.incarnation() <= k => {}
                        _ => v(out, "C10", "C10/told-higher-incarnation", at, format!(
                            "{kind} carries {:?} but this instance was only told incarnation {:?} for it", m, known)),
                    }
                }
            }
            // C19: destination never bears the sender's own address (relays and user announce exempt)
            if to.addr == p.header.src.addr {
                let exempt = match (&rec.input, &p.header.message) {
                    (Input::Announce(d), Message::Announce) => d == to,
                    // a timer the instance never scheduled (crafted by the caller) that names the destination itself
                    (Input::Timer(Timer::ChangeSuspectToDown { member_id, .. }), Message::TurnUndead) => !genuine_timer && member_id == to,
                    (Input::Data(_), Message::IndirectPing { .. }) => told.header.as_ref().is_some_and(|ih| matches!(&ih.message, Message::PingReq { target, .. } if target == to)),
                    (Input::Data(_), Message::ForwardedAck { .. }) => told.header.as_ref().is_some_and(|ih| matches!(&ih.message, Message::IndirectAck { target, .. } if target == to)),
                    _ => false,
                };
                if exempt {
                    stats.inc("c19_exempt_relay_or_user_dst");
                } else {
                    v(out, "C19", "C19/own-address-destination", at, format!("{kind} sent to {to}, which bears the sender's own address (input {})", rec.input.kind()));
                }
            }
        }
    }

    // ---- C12: replies and relays preserve origin, target and probe number ---------------------------
    fn check_relays(&mut self, pre: &Obs, rec: &CallRec, post: &Obs, told: &Told, at: u64, out: &mut Vec<Violation>, stats: &mut Stats) {
        let (Input::Data(d), Some(p)) = (&rec.input, &told.parsed) else { return };
        if crate::models::accepted_view(d, pre.id, &self.cfg, self.codec).is_none() {
            return;
        }
        let src = p.header.src;
        let sender_active = post.active.iter().any(|m| *m.id() == src);
        // replies are owed only by a connected instance to an active sender
        if !sender_active || !post.connected() || post.id != pre.id {
            return;
        }
        let sent: Vec<(SimId, Message<SimId>)> = rec
            .sends()
            .filter_map(|(to, data)| parse_datagram(self.codec, data).ok().map(|q| (*to, q.header.message)))
            .collect();
        let own = pre.id;
        let expect: Option<(SimId, Message<SimId>)> = match &p.header.message {
            Message::Ping(n) => Some((src, Message::Ack(*n))),
            Message::PingReq { target, probe_number } if *target != own => Some((*target, Message::IndirectPing { origin: src, probe_number: *probe_number })),
            Message::IndirectPing { origin, probe_number } if *origin != own => Some((src, Message::IndirectAck { target: *origin, probe_number: *probe_number })),
            Message::IndirectAck { target, probe_number } if *target != own => Some((*target, Message::ForwardedAck { origin: src, probe_number: *probe_number })),
            _ => None,
        };
        let names_self = match &p.header.message {
            Message::PingReq { target, .. } | Message::IndirectAck { target, .. } => *target == own,
            Message::IndirectPing { origin, .. } | Message::ForwardedAck { origin, .. } => *origin == own,
            _ => false,
        };
        if names_self {
            stats.inc("c12_indirect_for_ourselves");
            if rec.result != Res::Err(ErrKind::IndirectForOurselves) {
                v(out, "C12", "C12/indirect-for-ourselves-not-rejected", at, format!("{} naming this instance itself returned {:?}", msg_kind(&p.header.message), rec.result));
            }
            if sent.iter().any(|(_, m)| matches!(m, Message::IndirectPing { .. } | Message::IndirectAck { .. } | Message::ForwardedAck { .. })) {
                v(out, "C12", "C12/indirect-for-ourselves-relayed", at, format!("{} naming this instance itself was relayed", msg_kind(&p.header.message)));
            }
            return;
        }
        if let Some((to, msg)) = expect {
            // an error while handling trailing custom broadcasts does not cancel the reply
            stats.inc("c12_replies_owed");
            if !sent.iter().any(|(t, m)| *t == to && *m == msg) {
                v(out, "C12", "C12/reply-or-relay-wrong", at, format!("{} from {src} should be answered with {:?} to {to}; sent: {:?}", msg_kind(&p.header.message), msg, sent));
            }
            // and nothing of the relay family besides it
            let family = |m: &Message<SimId>| matches!(m, Message::Ack(_) | Message::IndirectPing { .. } | Message::IndirectAck { .. } | Message::ForwardedAck { .. });
            let extra = sent.iter().filter(|(t, m)| family(m) && !(*t == to && *m == msg)).count();
            if extra > 0 {
                v(out, "C12", "C12/unexpected-relay", at, format!("{} from {src} caused {extra} additional reply/relay datagram(s): {:?}", msg_kind(&p.header.message), sent));
            }
        }
    }

    // ---- C08 / C13 epochs / C10 defunct gating -------------------------------------------------------
    #[allow(clippy::too_many_arguments)]
    fn check_notifications_and_epochs(&mut self, pre: &Obs, rec: &CallRec, post: &Obs, told: &Told, genuine_timer: bool, at: u64, out: &mut Vec<Violation>, stats: &mut Stats) {
        let codec = self.codec;
        let was_defunct = self.conn == Conn::Defunct;
        match (&rec.input, rec.result) {
            (Input::ChangeIdentity(_), Res::Ok) | (Input::ReuseDown, Res::Ok) => {
                self.epochs += 1;
                self.conn = Conn::Idle0;
            }
            // failed while announcing the new identity: the switch (and the reset) has happened all the same
            (Input::ChangeIdentity(id), _) if post.id == *id && pre.id != *id => {
                self.epochs += 1;
                self.conn = Conn::Idle0;
            }
            _ => {}
        }
        let mut n_defunct = 0;
        let mut n_rejoin = 0;
        let mut idle_notified = false;
        for e in &rec.fx {
            match e {
                Effect::Sched { timer, .. } => {
                    self.ledger.push((timer.clone(), self.epochs));
                }
                Effect::Send { data, .. } => {
                    // C10: a defunct instance emits nothing that is gated on being connected
                    if self.conn == Conn::Defunct {
                        if let Ok(p) = parse_datagram(codec, data) {
                            let gated = matches!(
                                p.header.message,
                                Message::Ping(_) | Message::PingReq { .. } | Message::Ack(_) | Message::Feed
                                    | Message::IndirectPing { .. } | Message::IndirectAck { .. } | Message::ForwardedAck { .. }
                            );
                            let periodic = genuine_timer && matches!(&rec.input, Input::Timer(t) if is_periodic_or_probe(t));
                            if gated || periodic {
                                v(out, "C10", "C10/active-while-defunct", at, format!(
                                    "defunct instance sent {} while handling {}", msg_kind(&p.header.message), rec.input.kind()));
                            }
                        }
                    }
                }
                Effect::Notify(n) => match n {
                    OwnedNotification::MemberUp(id) => {
                        if !self.up.insert(*id) {
                            v(out, "C08", "C08/memberup-twice", at, format!("MemberUp({id}) for a member already up"));
                        }
                    }
                    OwnedNotification::MemberDown(id) => {
                        if !self.up.remove(id) {
                            v(out, "C08", "C08/memberdown-not-up", at, format!("MemberDown({id}) for a member that is not up"));
                        }
                    }
                    OwnedNotification::Rename(a, b) => {
                        if !b.win_conflict(a) {
                            v(out, "C09", "C09/rename-to-loser", at, format!("Rename({a},{b}) but {b} does not win the address conflict"));
                        }
                        if self.up.remove(a) {
                            self.up.insert(*b);
                        }
                    }
                    OwnedNotification::Active => {
                        if self.conn != Conn::Idle0 {
                            v(out, "C08", "C08/active-not-from-idle", at, format!("Active notified in state {:?}", self.conn));
                        }
                        if self.up.is_empty() {
                            v(out, "C08", "C08/active-without-members", at, "Active notified with no active member".into());
                        }
                        self.conn = Conn::Active;
                    }
                    OwnedNotification::Idle => {
                        if self.conn != Conn::Active {
                            v(out, "C08", "C08/idle-not-from-active", at, format!("Idle notified in state {:?}", self.conn));
                        }
                        if !self.up.is_empty() {
                            v(out, "C08", "C08/idle-with-members", at, format!("Idle notified with {} active member(s)", self.up.len()));
                        }
                        self.conn = Conn::Idle0;
                        self.epochs += 1;
                        idle_notified = true;
                    }
                    OwnedNotification::Defunct => {
                        n_defunct += 1;
                        self.conn = Conn::Defunct;
                        self.epochs += 1;
                    }
                    OwnedNotification::Rejoin(new) => {
                        n_rejoin += 1;
                        self.conn = Conn::Idle0;
                        self.epochs += 1;
                        let _ = new;
                    }
                },
            }
        }
        let _ = idle_notified;
        // mirror == iter_members
        let active_ids: BTreeSet<SimId> = post.active.iter().map(|m| *m.id()).collect();
        if active_ids != self.up {
            v(out, "C08", "C08/mirror-mismatch", at, format!("replayed notifications give {:?}, iter_members gives {:?}", self.up, active_ids));
            self.up = active_ids.clone(); // resync so one defect yields one report
        }
        if post.num_members != post.active.len() {
            v(out, "C08", "C08/num-members", at, format!("num_members {} but iter_members yields {}", post.num_members, post.active.len()));
        }
        // notification state machine vs. the instance's connection state (hook cross-check)
        let hook = match post.snap.connection_state {
            0 => Conn::Idle0,
            1 => Conn::Active,
            _ => Conn::Defunct,
        };
        if hook != self.conn {
            v(out, "C08", "C08/conn-state-vs-notifications", at, format!("notifications imply {:?} but the instance is {:?}", self.conn, hook));
            self.conn = hook;
        }
        if self.conn == Conn::Active && post.num_members == 0 {
            v(out, "C08", "C08/active-with-zero-members", at, "instance remains Active with no active member and no Idle notification".into());
        }

        // Defunct / Rejoin only on a trigger
        let own = |id: &SimId| *id == pre.id || self.own_ids.contains(id);
        let mut potential = matches!(rec.input, Input::Leave);
        let mut certain = matches!(rec.input, Input::Leave);
        for m in &told.updates {
            if own(m.id()) && (m.state() == State::Down || m.state() == State::Suspect) {
                potential = true;
            }
        }
        if let Input::ApplyMany(ms, _) = &rec.input {
            if ms.iter().any(|m| *m.id() == pre.id && m.state() == State::Down) {
                certain = true;
            }
        }
        if told.header.as_ref().is_some_and(|h| matches!(h.message, Message::TurnUndead)) {
            potential = true;
        }
        if let Some(p) = &told.parsed {
            if matches!(p.header.message, Message::TurnUndead) {
                if p.header.dst == pre.id && p.header.src.addr != pre.id.addr && rec.result == Res::Ok {
                    if let Input::Data(d) = &rec.input {
                        if d.len() <= self.cfg.max_packet_size.get() {
                            certain = true;
                        }
                    }
                }
            }
        }
        // at most one Rejoin per verdict about the identity in use at that point of the batch
        if n_rejoin > 0 {
            let mut cur = pre.id;
            let mut allowed = 0u64;
            for m in &told.updates {
                if *m.id() == cur && (m.state() == State::Down || m.state() == State::Suspect) {
                    allowed += 1;
                    if let Some(next) = cur.renewed() {
                        cur = next;
                    }
                }
            }
            if told.header.as_ref().is_some_and(|h| matches!(h.message, Message::TurnUndead)) {
                allowed += 1;
            }
            if n_rejoin > allowed {
                v(out, "C08", "C08/more-rejoins-than-verdicts", at, format!("{n_rejoin} Rejoin notifications while handling {}, which holds {allowed} verdict(s) about the identity in use at that point", rec.input.kind()));
            }
        }
        if (n_defunct + n_rejoin) > 0 && !potential {
            v(out, "C08", "C08/defunct-or-rejoin-without-trigger", at, format!("{} Defunct / {} Rejoin notified while handling {} with no Down/TurnUndead/unrefutable suspicion about this instance", n_defunct, n_rejoin, rec.input.kind()));
        }
        if certain && !was_defunct && n_defunct + n_rejoin == 0 && rec.result.is_ok() {
            v(out, "C08", "C08/trigger-without-defunct-or-rejoin", at, format!("{} told the instance it is down but neither Defunct nor Rejoin was notified", rec.input.kind()));
        }
        if certain {
            stats.inc("self_down_triggers");
        }
        // Rejoin iff identity switched by itself
        // (a change_identity that fails while announcing the new identity has nevertheless switched to it)
        let user_change = matches!(&rec.input, Input::ChangeIdentity(id) if rec.result == Res::Ok || (post.id == *id && pre.id != *id));
        if n_rejoin > 0 {
            stats.add("rejoins", n_rejoin);
            let last = rec.notes().filter_map(|n| if let OwnedNotification::Rejoin(id) = n { Some(*id) } else { None }).last().unwrap();
            if last != post.id {
                v(out, "C08", "C08/rejoin-identity-mismatch", at, format!("Rejoin({last}) but identity() is {}", post.id));
            }
            let mut prev = pre.id;
            for n in rec.notes() {
                if let OwnedNotification::Rejoin(new) = n {
                    if *new == prev || !new.win_conflict(&prev) {
                        v(out, "C10", "C10/rejoin-identity-does-not-win", at, format!("Rejoin({new}) from {prev}: must differ from and win against the old identity"));
                    }
                    prev = *new;
                }
            }
        } else if !user_change && post.id != pre.id {
            v(out, "C08", "C08/identity-changed-without-rejoin", at, format!("identity went {} -> {} without a Rejoin notification", pre.id, post.id));
        }
        if n_defunct > 0 {
            stats.add("defuncts", n_defunct);
        }
    }

    // ---- C01 (across calls) -------------------------------------------------------------------------------
    /// Down is final *until the member is forgotten*: the monitor remembers, per address, the furthest
    /// record it has seen and drops it only when the forget-timer of exactly that Down identity fires.
    /// A record that vanishes any other way (C09 reports that) and comes back lower is a move backwards.
    fn check_precedence_memory(&mut self, pre: &Obs, rec: &CallRec, post: &Obs, at: u64, out: &mut Vec<Violation>) {
        if rec.result == Res::Panic {
            return;
        }
        if let Input::Timer(Timer::RemoveDown(id)) = &rec.input {
            if self.c01_shadow.get(&id.addr).is_some_and(|m| m.id() == id && m.state() == State::Down) && post.slot(id.addr).is_none() {
                self.c01_shadow.remove(&id.addr);
            }
        }
        let rank = |s: State| match s {
            State::Alive => 0,
            State::Suspect => 1,
            State::Down => 2,
        };
        for new in &post.state {
            let addr = new.id().addr;
            if addr == pre.id.addr || addr == post.id.addr {
                self.c01_shadow.remove(&addr);
                continue;
            }
            if let Some(old) = self.c01_shadow.get(&addr) {
                let forward = if new.id() != old.id() {
                    new.id().win_conflict(old.id())
                } else if old.state() == State::Down {
                    new.state() == State::Down
                } else if new.state() == State::Down {
                    true
                } else {
                    new.incarnation() > old.incarnation() || (new.incarnation() == old.incarnation() && rank(new.state()) >= rank(old.state()))
                };
                if !forward {
                    v(out, "C01", "C01/record-moved-backwards", at, format!("the furthest record seen for address {addr} since it was last forgotten is {:?}; the table now holds {:?} (after {})", old, new, rec.input.kind()));
                }
            }
            self.c01_shadow.insert(addr, new.clone());
        }
    }

    // ---- C12 (probe rounds) -------------------------------------------------------------------------------
    /// A probe round ends without suspicion only on genuine evidence (Ack from the target with the
    /// round's number, or ForwardedAck with it from a member asked in this round, in a datagram that
    /// was processed); otherwise - unless the round was aborted - the target, if still the same
    /// active record at the same incarnation, becomes Suspect and exactly one timeout is scheduled.
    /// Indirect requests only without evidence and while the target is active, to at most
    /// num_indirect_probes distinct active members, never the target.
    fn check_probe_rounds(&mut self, pre: &Obs, rec: &CallRec, post: &Obs, told: &Told, at: u64, out: &mut Vec<Violation>, stats: &mut Stats) {
        let codec = self.codec;
        let token_now = pre.snap.timer_token;
        match &rec.input {
            Input::Timer(Timer::ProbeRandomMember(token)) if *token == token_now && pre.connected() => {
                let result_ok = rec.result == Res::Ok;
                if let Some(r) = self.round.take() {
                    let judged = result_ok && !r.dirty && (r.indirect_done || r.evidence);
                    if judged {
                        let timeouts = rec
                            .scheds()
                            .filter(|(t, _)| matches!(t, Timer::ChangeSuspectToDown { member_id, .. } if *member_id == r.target))
                            .count();
                        if r.evidence {
                            stats.inc("c12_rounds_judged_with_evidence");
                            if timeouts != 0 || pre.slot(r.target.addr) != post.slot(r.target.addr) {
                                v(out, "C12", "C12/suspected-despite-evidence", at, format!("round {} on {} had genuine evidence, yet {} timeout(s) scheduled, record {:?} -> {:?}", r.number, r.target, timeouts, pre.slot(r.target.addr), post.slot(r.target.addr)));
                            }
                        } else if pre.slot(r.target.addr).is_some_and(|m| *m.id() == r.target && m.state() != State::Down && m.incarnation() == r.inc) {
                            stats.inc("c12_rounds_judged_without_evidence");
                            let suspect = post.slot(r.target.addr).is_some_and(|m| *m.id() == r.target && m.state() == State::Suspect && m.incarnation() == r.inc);
                            let exact = rec
                                .scheds()
                                .filter(|(t, after)| matches!(t, Timer::ChangeSuspectToDown { member_id, incarnation, token } if *member_id == r.target && *incarnation == r.inc && *token == token_now) && **after == self.cfg.suspect_to_down_after)
                                .count();
                            if !suspect {
                                v(out, "C12", "C12/no-suspicion-without-evidence", at, format!("round {} on {}@{} ended without evidence; record after: {:?}", r.number, r.target, r.inc, post.slot(r.target.addr)));
                            }
                            if exact != 1 || timeouts != 1 {
                                v(out, "C12", "C12/suspicion-timeout-count", at, format!("round {} on {}@{} ended without evidence; {} timeout(s) for the target scheduled, {} with the right incarnation, token and delay", r.number, r.target, r.inc, timeouts, exact));
                            }
                        }
                    }
                }
                // the round that starts now
                if matches!(rec.result, Res::Ok | Res::Err(ErrKind::IncompleteProbeCycle)) && post.connected() && post.id == pre.id {
                    let ping = rec.sends().find_map(|(to, d)| match parse_datagram(codec, d).ok()?.header.message {
                        Message::Ping(n) => Some((*to, n)),
                        _ => None,
                    });
                    if let Some((target, number)) = ping {
                        // an answer to an earlier round's Ping must not pass for an answer to this one
                        if self.last_probe_number == Some(number) {
                            v(out, "C12", "C12/probe-number-reused", at, format!("two consecutive probe rounds carry the same probe number {number}: a late or duplicated Ack of the previous round would count as evidence for this one"));
                        }
                        self.last_probe_number = Some(number);
                        if let Some(m) = post.slot(target.addr).filter(|m| *m.id() == target) {
                            self.round = Some(Round { target, inc: m.incarnation(), number, asked: Vec::new(), evidence: false, indirect_done: false, dirty: false });
                        }
                    }
                }
            }
            Input::Timer(Timer::SendIndirectProbe { probed_id, token }) if *token == token_now => {
                let reqs: Vec<SimId> = rec
                    .sends()
                    .filter(|(_, d)| parse_datagram(codec, d).is_ok_and(|p| matches!(p.header.message, Message::PingReq { .. })))
                    .map(|(to, _)| *to)
                    .collect();
                match self.round.as_mut() {
                    Some(r) if r.target == *probed_id => {
                        if r.indirect_done {
                            r.dirty = true;
                        }
                        r.indirect_done = true;
                        if !r.dirty && rec.result == Res::Ok {
                            stats.inc("c12_indirect_stages_monitored");
                            let target_active = pre.active.iter().any(|m| *m.id() == r.target);
                            if !reqs.is_empty() && (r.evidence || !target_active) {
                                v(out, "C12", "C12/indirect-requests-unwarranted", at, format!("{} PingReq sent although evidence: {} / target active: {}", reqs.len(), r.evidence, target_active));
                            }
                            let mut uniq = reqs.clone();
                            uniq.sort();
                            uniq.dedup();
                            if uniq.len() != reqs.len() || reqs.len() > self.cfg.num_indirect_probes.get() || reqs.contains(&r.target) || reqs.iter().any(|h| !pre.active.iter().any(|m| m.id() == h)) {
                                v(out, "C12", "C12/indirect-fanout", at, format!("PingReq destinations {:?} for target {} (num_indirect_probes {}, active {:?})", reqs, r.target, self.cfg.num_indirect_probes, pre.active.iter().map(|m| *m.id()).collect::<Vec<_>>()));
                            }
                        }
                        r.asked.extend(reqs);
                    }
                    Some(r) => {
                        // another round's timer carrying the current token marks the stage of this round too
                        r.dirty = true;
                    }
                    None => {}
                }
            }
            Input::Data(d) => {
                // (header and updates only: a datagram whose custom-broadcast section is damaged is still
                // processed up to and including its message; the error is reported at the end)
                if let (Some(r), Some((h, _))) = (self.round.as_mut(), crate::models::accepted_view(d, pre.id, &self.cfg, codec)) {
                    let processed = matches!(rec.result, Res::Ok | Res::Err(ErrKind::MalformedPacket) | Res::Err(ErrKind::CustomBroadcast))
                        // the sender counts as active unless the table held it Down or superseded when the datagram
                        // arrived (what the same datagram's updates say about it afterwards does not matter)
                        && !pre.slot(h.src.addr).is_some_and(|m| (*m.id() == h.src && m.state() == State::Down) || m.id().win_conflict(&h.src));
                    if processed {
                        match h.message {
                            Message::Ack(n) if h.src == r.target && n == r.number => r.evidence = true,
                            Message::ForwardedAck { origin, probe_number } if origin != pre.id && probe_number == r.number && r.asked.contains(&h.src) => r.evidence = true,
                            _ => {}
                        }
                    }
                }
            }
            _ => {}
        }
        // aborted: idle, defunct, identity change (also whatever leaves the instance disconnected)
        let aborted = post.id != pre.id
            || !post.connected()
            || rec.notes().any(|n| matches!(n, OwnedNotification::Idle | OwnedNotification::Defunct | OwnedNotification::Rejoin(_)))
            || matches!((&rec.input, rec.result), (Input::ChangeIdentity(_), _) | (Input::ReuseDown, Res::Ok));
        if aborted {
            self.round = None;
        }
    }

    // ---- C17 (the part a single run can decide) ------------------------------------------------------------
    /// A call that fails with one of the documented "does not affect Foca's state" errors emits
    /// nothing and leaves every observable piece of state (membership, backlogs with their counters,
    /// probe, incarnation, token, connection state, cursor, buffer capacity) as it was. The twin-run
    /// check decides the rest (RNG position, scratch buffers, later behaviour).
    fn check_rejections(&mut self, pre: &Obs, rec: &CallRec, post: &Obs, at: u64, out: &mut Vec<Violation>, stats: &mut Stats) {
        let Res::Err(k) = rec.result else { return };
        let traceless = match (&rec.input, k) {
            (Input::Data(_), ErrKind::DataTooBig | ErrKind::Decode | ErrKind::DataFromOurselves) => true,
            (Input::ReuseDown, ErrKind::NotUndead) => true,
            (Input::ChangeIdentity(_), ErrKind::SameIdentity) => true,
            (Input::SetConfig(_), ErrKind::InvalidConfig) => true,
            (Input::AddBroadcast(_), ErrKind::DataTooBig | ErrKind::MalformedPacket) => true,
            _ => false,
        };
        if !traceless {
            return;
        }
        stats.inc("c17_rejections_monitored");
        if !rec.no_effects() || pre != post {
            v(out, "C17", "C17/rejected-input-left-a-trace", at, format!("{} failed with {k:?} yet emitted {} effect(s); observable state changed: {}", rec.input.kind(), rec.fx.len(), pre != post));
        }
    }

    // ---- C14 ---------------------------------------------------------------------------------------------
    /// Every effective probe round pings exactly one member that is active, never the instance's own
    /// address; while the set of known members (identities and which of them are active) is unchanged,
    /// every window of 2n-1 consecutive rounds pings each of the n active members.
    fn check_round_robin(&mut self, pre: &Obs, rec: &CallRec, post: &Obs, at: u64, out: &mut Vec<Violation>, stats: &mut Stats) {
        let sig_of = |o: &Obs| -> Vec<(SimId, bool)> { o.state.iter().map(|m| (*m.id(), m.state() != State::Down)).collect() };
        let pre_sig = sig_of(pre);
        if pre_sig != self.rr_sig {
            self.rr_sig = pre_sig;
            self.rr_window.clear();
        }
        if let Input::Timer(Timer::ProbeRandomMember(token)) = &rec.input {
            let effective = *token == pre.snap.timer_token && pre.connected();
            let completed = matches!(rec.result, Res::Ok | Res::Err(ErrKind::IncompleteProbeCycle));
            if effective && completed {
                stats.inc("c14_rounds_monitored");
                let codec = self.codec;
                let pings: Vec<SimId> = rec
                    .sends()
                    .filter(|(_, d)| parse_datagram(codec, d).is_ok_and(|p| matches!(p.header.message, Message::Ping(_))))
                    .map(|(to, _)| *to)
                    .collect();
                if pings.len() != 1 {
                    v(out, "C14", "C14/not-exactly-one-ping", at, format!("a probe round sent {} Ping datagrams ({:?}); active before: {:?}", pings.len(), pings, pre.active.iter().map(|m| *m.id()).collect::<Vec<_>>()));
                } else {
                    let t = pings[0];
                    if t.addr == pre.id.addr {
                        v(out, "C14", "C14/probe-own-address", at, format!("probe round pinged {t}, the instance is {}", pre.id));
                    }
                    // (the round first settles the previous one: a failed probe may rename or re-install its target,
                    // so "active" is judged on the state the call leaves behind; nothing goes Down in a probe call)
                    if !post.active.iter().any(|m| *m.id() == t) {
                        v(out, "C14", "C14/probe-target-not-active", at, format!("probe round pinged {t}; active after the round: {:?}", post.active.iter().map(|m| *m.id()).collect::<Vec<_>>()));
                    }
                    let stable = sig_of(post) == self.rr_sig;
                    if stable {
                        self.rr_window.push(t);
                        let n = post.active.len();
                        let w = (2 * n).saturating_sub(1);
                        if n >= 1 && self.rr_window.len() >= w {
                            stats.inc("c14_full_windows_checked");
                            let tail = &self.rr_window[self.rr_window.len() - w..];
                            for m in &post.active {
                                if !tail.contains(m.id()) {
                                    v(out, "C14", "C14/member-starved", at, format!("{} was not pinged in the last {w} rounds {:?} although the set of known members did not change (n = {n})", m.id(), tail));
                                    break;
                                }
                            }
                            // keep the window bounded
                            if self.rr_window.len() > 4 * w + 8 {
                                let cut = self.rr_window.len() - w;
                                self.rr_window.drain(..cut);
                            }
                        }
                    }
                }
            }
        }
        // the call itself may have changed the set (a new member, a Down, a forget)
        let post_sig = sig_of(post);
        if post_sig != self.rr_sig {
            self.rr_sig = post_sig;
            self.rr_window.clear();
        }
    }

    // ---- C11 ---------------------------------------------------------------------------------------------
    /// The iff-oracle of C11 on every suspicion timeout delivered in any history (genuine, duplicated,
    /// stale or crafted): it takes effect - completely - iff the record still shows that identity at
    /// that incarnation (and is not Down already) and the token is the current epoch's; otherwise the
    /// call changes nothing and emits nothing.
    fn check_suspicion_timeout(&mut self, pre: &Obs, rec: &CallRec, post: &Obs, genuine_age: Option<u64>, at: u64, out: &mut Vec<Violation>, stats: &mut Stats) {
        let Input::Timer(Timer::ChangeSuspectToDown { member_id, incarnation, token }) = &rec.input else { return };
        if rec.result == Res::Panic {
            return;
        }
        // Between change_identity / reuse_down_identity and the next contact with the cluster the instance
        // is disconnected although it lists active members, and no timeout of the new epoch can exist yet:
        // one that carries the current token there is crafted from a future epoch (outside "duplicate/stale
        // timers"), and the reconnection it triggers is the pending one, not an effect of the timeout.
        if !pre.connected() && !pre.active.is_empty() {
            stats.inc("c11_timeouts_skipped_crafted_before_reconnection");
            return;
        }
        let codec = self.codec;
        let slot = pre.slot(member_id.addr);
        let live = slot.is_some_and(|m| m.id() == member_id && m.incarnation() == *incarnation && m.state() != State::Down);
        // "belongs to the current connection epoch": for a timeout this instance scheduled itself the monitor knows
        // the epoch it was issued in (its own count of Idle / Defunct / identity changes), whatever the 8-bit token
        // says; for any other one (crafted, duplicated) the token is all there is
        let current = match genuine_age {
            Some(age) if age < 250 && !self.token_wrapped => {
                if (age == 0) != (*token == pre.snap.timer_token) {
                    stats.inc("c11_epoch_ledger_and_token_disagree");
                }
                age == 0
            }
            _ => *token == pre.snap.timer_token,
        };
        let ctx = format!("timeout for {member_id}@{incarnation} token {token} (current {}), issued {genuine_age:?} epoch(s) ago, slot before: {slot:?}", pre.snap.timer_token);
        if !(live && current) {
            stats.inc("c11_timeouts_without_effect_expected");
            if !rec.no_effects() || rec.result != Res::Ok || pre != post {
                v(out, "C11", "C11/cancelled-timeout-had-effect", at, format!("{ctx}: result {:?}, {} effect(s), state changed: {}", rec.result, rec.fx.len(), pre != post));
            }
            return;
        }
        stats.inc("c11_timeouts_taking_effect");
        if rec.result != Res::Ok {
            v(out, "C11", "C11/timeout-error", at, format!("{ctx}: result {:?}", rec.result));
            return;
        }
        let downs = rec.notes().filter(|n| matches!(n, OwnedNotification::MemberDown(x) if x == member_id)).count();
        if downs != 1 {
            v(out, "C11", "C11/no-memberdown", at, format!("{ctx}: {downs} MemberDown notifications"));
        }
        match post.slot(member_id.addr) {
            Some(m) if m.id() == member_id && m.state() == State::Down => {}
            other => v(out, "C11", "C11/not-down-after-timeout", at, format!("{ctx}: slot after: {other:?}")),
        }
        let want = crate::codec::enc_member(codec, &Member::new(*member_id, *incarnation, State::Down));
        if !post.snap.updates.iter().any(|(dta, r)| *dta == want && *r == self.cfg.max_transmissions.get() as usize) {
            v(out, "C11", "C11/down-not-gossiped", at, format!("{ctx}: the Down update is not pending for dissemination with max_transmissions left"));
        }
        let removes = rec.scheds().filter(|(t, after)| matches!(t, Timer::RemoveDown(x) if x == member_id) && **after == self.cfg.remove_down_after).count();
        if removes != 1 {
            v(out, "C11", "C11/forget-not-scheduled", at, format!("{ctx}: {removes} RemoveDown scheduled after remove_down_after"));
        }
        let is_tu = |data: &Vec<u8>| parse_datagram(codec, data).is_ok_and(|p| matches!(p.header.message, Message::TurnUndead));
        let tu: Vec<_> = rec.sends().filter(|(_, d)| is_tu(d)).collect();
        if self.cfg.notify_down_members {
            if tu.len() != 1 || tu[0].0 != member_id {
                v(out, "C11", "C11/turnundead-missing", at, format!("{ctx}: notify_down_members is on, {} TurnUndead sent", tu.len()));
            }
        } else if !tu.is_empty() {
            v(out, "C11", "C11/turnundead-unwanted", at, format!("{ctx}: notify_down_members is off, TurnUndead sent"));
        }
        let last = pre.active.len() == 1 && pre.active[0].id() == member_id;
        for e in &rec.fx {
            let ok = match e {
                Effect::Send { data, .. } => is_tu(data),
                Effect::Sched { timer, .. } => matches!(timer, Timer::RemoveDown(x) if x == member_id),
                Effect::Notify(OwnedNotification::MemberDown(x)) => x == member_id,
                Effect::Notify(OwnedNotification::Idle) => last && pre.connected(),
                Effect::Notify(_) => false,
            };
            if !ok {
                v(out, "C11", "C11/unexpected-extra-effect", at, format!("{ctx}: {e:?}"));
            }
        }
    }

    // ---- C09 ---------------------------------------------------------------------------------------------
    fn check_table(&mut self, pre: &Obs, rec: &CallRec, post: &Obs, told: &Told, at: u64, out: &mut Vec<Violation>) {
        let mut seen = BTreeSet::new();
        for m in &post.state {
            if !seen.insert(m.id().addr) {
                v(out, "C09", "C09/duplicate-address", at, format!("two records for address {}", m.id().addr));
            }
        }
        for m in &post.active {
            if m.id().addr == post.id.addr {
                v(out, "C09", "C09/own-address-active", at, format!("{:?} bears the instance's own address and is listed active", m));
            }
        }
        if post.state.len() > self.told_addrs.len() {
            v(out, "C09", "C09/more-records-than-addresses-told", at, format!("{} records, {} distinct addresses told", post.state.len(), self.told_addrs.len()));
        }
        for old in &pre.state {
            match post.slot(old.id().addr) {
                Some(new) => {
                    if new.id() == old.id() {
                        // C01: the record of an identity only moves forward in the precedence order
                        let rank = |s: State| match s {
                            State::Alive => 0,
                            State::Suspect => 1,
                            State::Down => 2,
                        };
                        let forward = if old.state() == State::Down {
                            new.state() == State::Down && new.incarnation() == old.incarnation()
                        } else if new.state() == State::Down {
                            true
                        } else {
                            new.incarnation() > old.incarnation() || (new.incarnation() == old.incarnation() && rank(new.state()) >= rank(old.state()))
                        };
                        if !forward {
                            v(out, "C01", "C01/record-moved-backwards", at, format!("record {:?} became {:?} while handling {}", old, new, rec.input.kind()));
                        }
                    }
                    if new.id() != old.id() {
                        if !new.id().win_conflict(old.id()) {
                            v(out, "C09", "C09/identity-moved-backwards", at, format!("record {} replaced by {} which does not win the address conflict", old.id(), new.id()));
                        }
                        let renamed = rec.notes().any(|n| matches!(n, OwnedNotification::Rename(a, b) if a == old.id() && b == new.id()));
                        // several replacements in one call chain through intermediate identities
                        let chained = rec.notes().any(|n| matches!(n, OwnedNotification::Rename(a, _) if a == old.id()))
                            && rec.notes().any(|n| matches!(n, OwnedNotification::Rename(_, b) if b == new.id()));
                        if !renamed && !chained {
                            v(out, "C09", "C09/replacement-without-rename", at, format!("record {} replaced by {} without Rename", old.id(), new.id()));
                        }
                    }
                }
                None => {
                    let ok = matches!(&rec.input, Input::Timer(Timer::RemoveDown(id)) if id == old.id()) && old.state() == State::Down;
                    if !ok {
                        v(out, "C09", "C09/record-vanished", at, format!("record {:?} disappeared while handling {}", old, rec.input.kind()));
                    }
                }
            }
        }
        for new in &post.state {
            if pre.slot(new.id().addr).is_none() && !told.updates.iter().any(|m| m.id().addr == new.id().addr) {
                v(out, "C09", "C09/record-from-nowhere", at, format!("record {:?} appeared but the input never mentioned its address", new));
            }
        }
        // payload of a Down / superseded sender is discarded
        if let (Input::Data(_), Some(p)) = (&rec.input, &told.parsed) {
            if let Some(slot) = pre.slot(p.header.src.addr) {
                let down_same = slot.id() == &p.header.src && slot.state() == State::Down;
                let superseded = slot.id().win_conflict(&p.header.src);
                if (down_same || superseded) && p.header.src.addr != pre.id.addr {
                    if !rec.hcalls.is_empty() {
                        v(out, "C09", "C09/inactive-sender-items-processed", at, format!("custom broadcast items of inactive sender {} reached the handler", p.header.src));
                    }
                    if pre.state != post.state {
                        v(out, "C09", "C09/inactive-sender-updates-applied", at, format!("membership changed while handling a datagram from inactive sender {}", p.header.src));
                    }
                }
            }
        }
    }

    // ---- C10 ---------------------------------------------------------------------------------------------
    fn check_incarnation(&mut self, pre: &Obs, rec: &CallRec, post: &Obs, told: &Told, at: u64, out: &mut Vec<Violation>, stats: &mut Stats) {
        let reset = matches!((&rec.input, rec.result), (Input::ReuseDown, Res::Ok)) || post.id != pre.id;
        let a = pre.snap.incarnation;
        let b = post.snap.incarnation;
        let suspicions = |id: SimId| -> Vec<u16> {
            told.updates.iter().filter(|m| *m.id() == id && m.state() == State::Suspect).map(|m| m.incarnation()).collect()
        };
        if !reset {
            if b < a {
                v(out, "C10", "C10/incarnation-decreased", at, format!("own incarnation went {a} -> {b} without an identity change"));
            }
            if b > a {
                stats.inc("incarnation_bumps");
                let s = suspicions(pre.id);
                let justified = s.iter().filter(|i| **i >= a).max().copied();
                match justified {
                    None => v(out, "C10", "C10/incarnation-grew-without-suspicion", at, format!("own incarnation went {a} -> {b} but the input held no suspicion of {} at incarnation >= {a}", pre.id)),
                    Some(mx) => {
                        if b as u32 > mx as u32 + 1 {
                            v(out, "C10", "C10/incarnation-overshoot", at, format!("own incarnation went {a} -> {b}, highest suspicion was {mx}"));
                        }
                    }
                }
            }
        } else {
            // fresh tenure starts at 0; it may already have refuted suspicions contained in the same input
            let s = suspicions(post.id);
            let bound = s.iter().max().map(|m| *m as u32 + 1).unwrap_or(0);
            if b as u32 > bound {
                v(out, "C10", "C10/fresh-tenure-not-zero", at, format!("identity {} starts at incarnation {b}", post.id));
            }
        }
        // after processing a suspicion, strictly greater (processing is certain for apply_many)
        if let Input::ApplyMany(ms, _) = &rec.input {
            if rec.result.is_ok() && !reset {
                for m in ms {
                    if *m.id() == pre.id && m.state() == State::Suspect && m.incarnation() >= a {
                        stats.inc("self_suspicions_processed");
                        let at_max = m.incarnation().max(a) == u16::MAX;
                        // an instance that knows its identity is down has nothing to refute any more
                        let defunct_now = post.undead();
                        if at_max {
                            stats.inc("c10_probe_suspicion_at_max_incarnation_not_reset");
                        }
                        if !(b > m.incarnation() || defunct_now) {
                            v(out, "C10", "C10/suspicion-not-refuted", at, format!("suspected at {} (own {a}) but own incarnation is {b} afterwards", m.incarnation()));
                        }
                    }
                }
            }
        }
        if let (Input::Data(_), Some(p)) = (&rec.input, &told.parsed) {
            let sender_active_after = post.active.iter().any(|m| *m.id() == p.header.src);
            let accepted = rec.result.is_ok() && p.header.dst == pre.id && sender_active_after;
            if accepted && !reset {
                if let Some(ms) = &p.members {
                    for (m, _) in ms {
                        if *m.id() == pre.id && m.state() == State::Suspect && m.incarnation() >= a {
                            stats.inc("self_suspicions_processed");
                            let at_max = m.incarnation().max(a) == u16::MAX;
                            if at_max {
                                stats.inc("c10_probe_suspicion_at_max_incarnation_not_reset");
                            }
                            if !(b > m.incarnation() || post.undead()) {
                                v(out, "C10", "C10/suspicion-not-refuted", at, format!("suspected at {} (own {a}) by {} but own incarnation is {b} afterwards", m.incarnation(), p.header.src));
                            }
                        }
                    }
                }
            }
        }
        // the old identity is gossiped as Down after a rejoin
        let mut prev = pre.id;
        let was_defunct = pre.undead();
        let n_rejoins = rec.notes().filter(|n| matches!(n, OwnedNotification::Rejoin(_))).count();
        let mut seen_rejoins = 0;
        for n in rec.notes() {
            if let OwnedNotification::Rejoin(new) = n {
                seen_rejoins += 1;
                // with several renewals in one call the Down of an intermediate identity supersedes the
                // earlier one (one pending update per address): only the last one is owed to the cluster
                if !was_defunct && seen_rejoins == n_rejoins && n_rejoins == 1 {
                    let enc = crate::codec::enc_member(self.codec, &Member::new(prev, 0, State::Down));
                    let in_backlog = post.snap.updates.iter().any(|(d, _)| *d == enc);
                    let mut in_sends = false;
                    for (_, data) in rec.sends() {
                        if let Ok(p) = parse_datagram(self.codec, data) {
                            if let Some(ms) = &p.members {
                                // (a later Down update about another identity of the same address supersedes it:
                                // one pending update per address)
                                if ms.iter().any(|(m, _)| m.id().addr == prev.addr && m.state() == State::Down) {
                                    in_sends = true;
                                }
                            }
                        }
                    }
                    // a later update about the same address may have replaced it
                    let replaced = post.snap.updates.iter().any(|(d, _)| {
                        let mut cur: &[u8] = d;
                        let mut c = crate::codec::AnyCodec::new(self.codec);
                        foca::Codec::decode_member(&mut c, &mut cur).map(|m| m.id().addr == prev.addr).unwrap_or(false)
                    });
                    if !in_backlog && !in_sends && !replaced {
                        v(out, "C10", "C10/old-identity-not-gossiped-down", at, format!("rejoined as {new} but Down({prev}) is neither pending nor sent"));
                    }
                }
                prev = *new;
            }
        }
    }

    // ---- C13 ---------------------------------------------------------------------------------------------
    fn check_timer_ledger(&mut self, post: &Obs, at: u64, out: &mut Vec<Violation>, stats: &mut Stats) {
        let cur = self.epochs;
        let mut probe = 0;
        let mut ann = 0;
        let mut annd = 0;
        let mut gos = 0;
        let mut other_current = 0;
        for (t, e) in &self.ledger {
            if *e != cur {
                continue;
            }
            match t {
                Timer::ProbeRandomMember(_) => probe += 1,
                Timer::PeriodicAnnounce(_) => ann += 1,
                Timer::PeriodicAnnounceDown(_) => annd += 1,
                Timer::PeriodicGossip(_) => gos += 1,
                Timer::RemoveDown(_) => {}
                _ => other_current += 1,
            }
        }
        let _ = post;
        if self.conn == Conn::Active {
            stats.inc("c13_ledger_checks_active");
            if probe != 1 {
                v(out, "C13", "C13/probe-timer-count", at, format!("active instance has {probe} outstanding probe timers of the current epoch"));
            }
            let chk = |name: &str, n: i32, enabled: bool, out: &mut Vec<Violation>| {
                if (enabled && n != 1) || (!enabled && n > 1) {
                    v(out, "C13", "C13/periodic-timer-count", at, format!("{name}: {n} outstanding timer(s), enabled: {enabled}"));
                }
            };
            chk("periodic_announce", ann, self.cfg.periodic_announce.is_some(), out);
            chk("periodic_announce_to_down_members", annd, self.cfg.periodic_announce_to_down_members.is_some(), out);
            chk("periodic_gossip", gos, self.cfg.periodic_gossip.is_some(), out);
        } else {
            stats.inc("c13_ledger_checks_inactive");
            if probe + ann + annd + gos + other_current != 0 {
                v(out, "C13", "C13/effective-timer-while-inactive", at, format!(
                    "instance is {:?} but has {} outstanding timer(s) of the current epoch", self.conn, probe + ann + annd + gos + other_current));
            }
        }
    }
}

pub trait WinConflict {
    fn win_conflict(&self, other: &Self) -> bool;
}
impl WinConflict for SimId {
    fn win_conflict(&self, other: &SimId) -> bool {
        foca::Identity::win_addr_conflict(self, other)
    }
}

pub fn is_rejected_kind(e: ErrKind) -> bool {
    matches!(e, ErrKind::DataTooBig | ErrKind::Decode | ErrKind::DataFromOurselves | ErrKind::MalformedPacket)
}
