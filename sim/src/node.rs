//! A real Foca instance wrapped so that every public call is recorded: input, result, ordered
//! effects, handler calls, panics.

use crate::codec::{AnyCodec, CodecKind};
use crate::handler::{Effect, HCall, HLog, HandlerCfg, Rec, SimHandler};
use crate::id::{Policy, SimId};
use crate::prng::SimRng;
use foca::{Config, Error, Foca, Member, Timer, VerifSnapshot};
use std::cell::RefCell;
use std::panic::{catch_unwind, AssertUnwindSafe};
use std::rc::Rc;

pub type F = Foca<SimId, AnyCodec, SimRng, SimHandler>;

pub mod hex {
    use serde::{Deserialize, Deserializer, Serializer};
    pub fn to_hex(v: &[u8]) -> String {
        let mut s = String::with_capacity(v.len() * 2);
        for b in v {
            s.push_str(&format!("{b:02x}"));
        }
        s
    }
    pub fn from_hex(s: &str) -> Option<Vec<u8>> {
        if s.len() % 2 != 0 {
            return None;
        }
        (0..s.len() / 2).map(|i| u8::from_str_radix(&s[2 * i..2 * i + 2], 16).ok()).collect()
    }
    pub fn serialize<S: Serializer>(v: &Vec<u8>, s: S) -> Result<S::Ok, S::Error> {
        s.serialize_str(&to_hex(v))
    }
    pub fn deserialize<'de, D: Deserializer<'de>>(d: D) -> Result<Vec<u8>, D::Error> {
        let s = String::deserialize(d)?;
        from_hex(&s).ok_or_else(|| serde::de::Error::custom("bad hex"))
    }
}

/// One call into the public API of an instance.
#[derive(Clone, Debug, serde::Serialize, serde::Deserialize)]
pub enum Input {
    Data(#[serde(with = "hex")] Vec<u8>),
    Timer(Timer<SimId>),
    Announce(SimId),
    Gossip,
    Broadcast,
    Leave,
    AddBroadcast(#[serde(with = "hex")] Vec<u8>),
    ApplyMany(Vec<Member<SimId>>, bool),
    ChangeIdentity(SimId),
    ReuseDown,
    SetConfig(Config),
}

impl Input {
    pub fn kind(&self) -> &'static str {
        match self {
            Input::Data(_) => "data",
            Input::Timer(t) => match t {
                Timer::ProbeRandomMember(_) => "t:probe",
                Timer::SendIndirectProbe { .. } => "t:indirect",
                Timer::ChangeSuspectToDown { .. } => "t:s2d",
                Timer::PeriodicAnnounce(_) => "t:pannounce",
                Timer::PeriodicAnnounceDown(_) => "t:pannounce_down",
                Timer::PeriodicGossip(_) => "t:pgossip",
                Timer::RemoveDown(_) => "t:remove_down",
            },
            Input::Announce(_) => "announce",
            Input::Gossip => "gossip",
            Input::Broadcast => "broadcast",
            Input::Leave => "leave",
            Input::AddBroadcast(_) => "add_broadcast",
            Input::ApplyMany(_, _) => "apply_many",
            Input::ChangeIdentity(_) => "change_identity",
            Input::ReuseDown => "reuse_down",
            Input::SetConfig(_) => "set_config",
        }
    }
}

#[derive(Clone, Copy, Debug, PartialEq, Eq, Hash, PartialOrd, Ord)]
pub enum ErrKind {
    DataTooBig,
    NotUndead,
    SameIdentity,
    NotConnected,
    IncompleteProbeCycle,
    DataFromOurselves,
    IndirectForOurselves,
    MalformedPacket,
    Encode,
    Decode,
    CustomBroadcast,
    InvalidConfig,
}

pub fn err_kind(e: &Error) -> ErrKind {
    match e {
        Error::DataTooBig => ErrKind::DataTooBig,
        Error::NotUndead => ErrKind::NotUndead,
        Error::SameIdentity => ErrKind::SameIdentity,
        Error::NotConnected => ErrKind::NotConnected,
        Error::IncompleteProbeCycle => ErrKind::IncompleteProbeCycle,
        Error::DataFromOurselves => ErrKind::DataFromOurselves,
        Error::IndirectForOurselves => ErrKind::IndirectForOurselves,
        Error::MalformedPacket => ErrKind::MalformedPacket,
        Error::Encode(_) => ErrKind::Encode,
        Error::Decode(_) => ErrKind::Decode,
        Error::CustomBroadcast(_) => ErrKind::CustomBroadcast,
        Error::InvalidConfig => ErrKind::InvalidConfig,
    }
}

#[derive(Clone, Copy, Debug, PartialEq, Eq, Hash)]
pub enum Res {
    Ok,
    OkBool(bool),
    Err(ErrKind),
    Panic,
}

impl Res {
    pub fn is_ok(&self) -> bool {
        matches!(self, Res::Ok | Res::OkBool(_))
    }
}

#[derive(Clone, Debug)]
pub struct CallRec {
    pub input: Input,
    pub result: Res,
    pub fx: Vec<Effect>,
    pub hcalls: Vec<HCall>,
    pub panic: Option<String>,
    /// Some(description) when the AccumulatingRuntime twin produced different effects
    pub twin_mismatch: Option<String>,
    /// win_addr_conflict was called for identities with different addresses or for an identity against itself
    pub conflict_contract_breaches: u64,
}

impl CallRec {
    pub fn sends(&self) -> impl Iterator<Item = (&SimId, &Vec<u8>)> {
        self.fx.iter().filter_map(|e| match e {
            Effect::Send { to, data } => Some((to, data)),
            _ => None,
        })
    }
    pub fn scheds(&self) -> impl Iterator<Item = (&Timer<SimId>, &std::time::Duration)> {
        self.fx.iter().filter_map(|e| match e {
            Effect::Sched { timer, after } => Some((timer, after)),
            _ => None,
        })
    }
    pub fn notes(&self) -> impl Iterator<Item = &foca::OwnedNotification<SimId>> {
        self.fx.iter().filter_map(|e| match e {
            Effect::Notify(n) => Some(n),
            _ => None,
        })
    }
    pub fn no_effects(&self) -> bool {
        self.fx.is_empty()
    }
}

/// Everything needed to construct an instance.
#[derive(Clone, Debug, serde::Serialize, serde::Deserialize)]
pub struct Setup {
    pub id: SimId,
    pub cfg: Config,
    pub codec: CodecKind,
    pub policy: Policy,
    pub hcfg: HandlerCfg,
    pub rng_seed: u64,
    /// also drive a twin instance (same seed, same inputs) through foca::AccumulatingRuntime and
    /// compare its three FIFO streams with the directly implemented runtime after every call (C08)
    #[serde(default)]
    pub acc_twin: bool,
}

/// Public (and hook-visible) state after a call.
#[derive(Clone, Debug, PartialEq, Eq)]
pub struct Obs {
    pub id: SimId,
    /// the part of the identity value in use that its equality does not cover
    pub id_shade: u8,
    /// iter_members(), sorted by (addr, gen)
    pub active: Vec<Member<SimId>>,
    /// iter_membership_state(), sorted by (addr, gen)
    pub state: Vec<Member<SimId>>,
    pub num_members: usize,
    pub updates_backlog: usize,
    pub custom_backlog: usize,
    pub snap: VerifSnapshot<SimId>,
}

impl Obs {
    pub fn slot(&self, addr: u16) -> Option<&Member<SimId>> {
        self.state.iter().find(|m| m.id().addr == addr)
    }
    pub fn connected(&self) -> bool {
        self.snap.connection_state == 1
    }
    pub fn undead(&self) -> bool {
        self.snap.connection_state == 2
    }
}

pub struct Node {
    pub twin: Option<(F, foca::AccumulatingRuntime<SimId>)>,
    pub twin_checked: u64,
    pub foca: F,
    pub hlog: Rc<RefCell<HLog>>,
    pub codec: CodecKind,
    pub poisoned: bool,
    pub calls: u64,
}

pub fn install_quiet_panic_hook() {
    use std::sync::Once;
    static ONCE: Once = Once::new();
    ONCE.call_once(|| {
        let default = std::panic::take_hook();
        std::panic::set_hook(Box::new(move |info| {
            if std::env::var_os("VERIF_SHOW_PANICS").is_some() {
                default(info);
            }
        }));
    });
}

fn panic_msg(p: Box<dyn std::any::Any + Send>) -> String {
    if let Some(s) = p.downcast_ref::<&str>() {
        s.to_string()
    } else if let Some(s) = p.downcast_ref::<String>() {
        s.clone()
    } else {
        "non-string panic payload".to_string()
    }
}

impl Node {
    /// Note: sets the thread-local identity policy.
    pub fn new(setup: &Setup) -> Node {
        crate::id::set_policy(setup.policy);
        let (handler, hlog) = SimHandler::new(setup.hcfg);
        let foca = Foca::with_custom_broadcast(
            setup.id,
            setup.cfg.clone(),
            SimRng::new(setup.rng_seed),
            AnyCodec::for_instance(setup.codec, setup.rng_seed),
            handler,
        );
        let twin = if setup.acc_twin {
            let (h2, _log2) = SimHandler::new(setup.hcfg);
            Some((
                Foca::with_custom_broadcast(setup.id, setup.cfg.clone(), SimRng::new(setup.rng_seed), AnyCodec::for_instance(setup.codec, setup.rng_seed), h2),
                foca::AccumulatingRuntime::new(),
            ))
        } else {
            None
        };
        Node { twin, twin_checked: 0, foca, hlog, codec: setup.codec, poisoned: false, calls: 0 }
    }

    pub fn id(&self) -> SimId {
        *self.foca.identity()
    }

    pub fn obs(&self) -> Obs {
        let mut active: Vec<Member<SimId>> = self.foca.iter_members().cloned().collect();
        active.sort_by_key(|m| (m.id().addr, m.id().gen));
        let mut state: Vec<Member<SimId>> = self.foca.iter_membership_state().cloned().collect();
        state.sort_by_key(|m| (m.id().addr, m.id().gen));
        Obs {
            id: self.id(),
            id_shade: self.id().shade,
            active,
            state,
            num_members: self.foca.num_members(),
            updates_backlog: self.foca.updates_backlog(),
            custom_backlog: self.foca.custom_broadcast_backlog(),
            snap: self.foca.verif_snapshot(),
        }
    }

    pub fn call(&mut self, input: Input) -> CallRec {
        self.calls += 1;
        let breaches0 = crate::id::conflict_contract_breaches();
        let mut rec = Rec::default();
        let h0 = self.hlog.borrow().calls.len();
        let foca = &mut self.foca;
        let r = catch_unwind(AssertUnwindSafe(|| -> Res {
            let to_res = |r: Result<(), Error>| match r {
                Ok(()) => Res::Ok,
                Err(e) => Res::Err(err_kind(&e)),
            };
            match &input {
                Input::Data(d) => to_res(foca.handle_data(d, &mut rec)),
                Input::Timer(t) => to_res(foca.handle_timer(t.clone(), &mut rec)),
                Input::Announce(dst) => to_res(foca.announce(*dst, &mut rec)),
                Input::Gossip => to_res(foca.gossip(&mut rec)),
                Input::Broadcast => to_res(foca.broadcast(&mut rec)),
                Input::Leave => to_res(foca.leave_cluster(&mut rec)),
                Input::AddBroadcast(d) => match foca.add_broadcast(d) {
                    Ok(b) => Res::OkBool(b),
                    Err(e) => Res::Err(err_kind(&e)),
                },
                Input::ApplyMany(ms, b) => to_res(foca.apply_many(ms.iter().cloned(), *b, &mut rec)),
                Input::ChangeIdentity(id) => to_res(foca.change_identity(*id, &mut rec)),
                Input::ReuseDown => to_res(foca.reuse_down_identity()),
                Input::SetConfig(c) => to_res(foca.set_config(c.clone())),
            }
        }));
        let (result, panic) = match r {
            Ok(res) => (res, None),
            Err(p) => {
                self.poisoned = true;
                (Res::Panic, Some(panic_msg(p)))
            }
        };
        let hcalls = self.hlog.borrow().calls[h0..].to_vec();
        // keep the handler log bounded
        if self.hlog.borrow().calls.len() > 4096 {
            self.hlog.borrow_mut().calls.clear();
        }
        let conflict_contract_breaches = crate::id::conflict_contract_breaches() - breaches0;
        let mut twin_mismatch = None;
        if panic.is_none() {
            if let Some((tf, rt)) = self.twin.as_mut() {
                let r2 = catch_unwind(AssertUnwindSafe(|| -> Res {
                    let to_res = |r: Result<(), Error>| match r {
                        Ok(()) => Res::Ok,
                        Err(e) => Res::Err(err_kind(&e)),
                    };
                    match &input {
                        Input::Data(d) => to_res(tf.handle_data(d, &mut *rt)),
                        Input::Timer(t) => to_res(tf.handle_timer(t.clone(), &mut *rt)),
                        Input::Announce(dst) => to_res(tf.announce(*dst, &mut *rt)),
                        Input::Gossip => to_res(tf.gossip(&mut *rt)),
                        Input::Broadcast => to_res(tf.broadcast(&mut *rt)),
                        Input::Leave => to_res(tf.leave_cluster(&mut *rt)),
                        Input::AddBroadcast(d) => match tf.add_broadcast(d) {
                            Ok(b) => Res::OkBool(b),
                            Err(e) => Res::Err(err_kind(&e)),
                        },
                        Input::ApplyMany(ms, b) => to_res(tf.apply_many(ms.iter().cloned(), *b, &mut *rt)),
                        Input::ChangeIdentity(id) => to_res(tf.change_identity(*id, &mut *rt)),
                        Input::ReuseDown => to_res(tf.reuse_down_identity()),
                        Input::SetConfig(c) => to_res(tf.set_config(c.clone())),
                    }
                }));
                match r2 {
                    Err(_) => twin_mismatch = Some("the AccumulatingRuntime twin panicked".to_string()),
                    Ok(res2) => {
                        self.twin_checked += 1;
                        let mut sends = Vec::new();
                        while let Some((to, data)) = rt.to_send() {
                            sends.push((to, data.to_vec()));
                        }
                        let mut scheds = Vec::new();
                        while let Some((after, t)) = rt.to_schedule() {
                            scheds.push((t, after));
                        }
                        let mut notes = Vec::new();
                        while let Some(n) = rt.to_notify() {
                            notes.push(n);
                        }
                        let d_sends: Vec<(SimId, Vec<u8>)> = rec.fx.iter().filter_map(|e| if let Effect::Send { to, data } = e { Some((*to, data.clone())) } else { None }).collect();
                        let d_scheds: Vec<(Timer<SimId>, std::time::Duration)> = rec.fx.iter().filter_map(|e| if let Effect::Sched { timer, after } = e { Some((timer.clone(), *after)) } else { None }).collect();
                        let d_notes: Vec<foca::OwnedNotification<SimId>> = rec.fx.iter().filter_map(|e| if let Effect::Notify(n) = e { Some(n.clone()) } else { None }).collect();
                        if res2 != result {
                            twin_mismatch = Some(format!("result {res2:?} vs {result:?}"));
                        } else if sends != d_sends {
                            twin_mismatch = Some(format!("to_send() yields {} datagram(s), the direct runtime saw {}", sends.len(), d_sends.len()));
                        } else if scheds != d_scheds {
                            twin_mismatch = Some(format!("to_schedule() yields {:?}, the direct runtime saw {:?}", scheds, d_scheds));
                        } else if notes != d_notes {
                            twin_mismatch = Some(format!("to_notify() yields {:?}, the direct runtime saw {:?}", notes, d_notes));
                        } else if rt.backlog() != 0 {
                            twin_mismatch = Some(format!("backlog() is {} after draining", rt.backlog()));
                        }
                    }
                }
            }
        }
        CallRec { input, result, fx: rec.fx, hcalls, panic, twin_mismatch, conflict_contract_breaches }
    }
}
