//! C04 — a single lost datagram never gets a live member declared Down.
//! Fault enumeration: for a formed, otherwise fault-free cluster, one run per datagram index.

use crate::codec::CodecKind;
use crate::frame::{Batch, Case, CheckDef, RunOut, Scenario, Tier, Violation};
use crate::handler::HandlerCfg;
use crate::id::{Policy, RenewMode};
use crate::node::Input;
use crate::prng::{mix2, Stream};
use crate::world::{cluster_config, NetCfg, World, WorldCfg, MS};
use foca::{Member, OwnedNotification, PeriodicParams, State};
use serde_json::json;
use std::num::NonZeroUsize;
use std::time::Duration;

#[derive(Clone, Debug, serde::Serialize, serde::Deserialize)]
pub struct P {
    pub wc: WorldCfg,
    /// per node: time at which it is bootstrapped with the full membership
    pub start_ns: Vec<u64>,
    pub window_ns: u64,
    pub settle_ns: u64,
    /// how many drop positions to try (0 = all)
    pub sample: u64,
    /// false: every node is bootstrapped with the full membership; true: nodes 2..n join by
    /// announcing to `join_to[i]` at `start_ns[i]` (periodic announce on), the window starts once
    /// every view is complete
    #[serde(default)]
    pub joins: bool,
    #[serde(default)]
    pub join_to: Vec<u16>,
    /// application traffic: (time, node, item length) of add_broadcast calls - with small packets the
    /// piggybacked sections fill datagrams to the last byte
    #[serde(default)]
    pub items: Vec<(u64, u16, usize)>,
}

pub fn gen_params(seed: u64, tier: Tier) -> P {
    let mut s = Stream::new(seed, "c04-params");
    let nmax = match tier {
        Tier::Quick => 7,
        Tier::Thorough => 12,
    };
    let n = s.range(2, nmax) as usize;
    let rtt = s.range(40, 400);
    let lmax = s.range(1, rtt / 4);
    let lmin = s.range(0, lmax);
    let period = rtt + 4 * lmax + 1 + s.range(0, 4 * rtt);
    let suspect = period + s.range(0, 3 * period);
    let k = s.range(1, 3) as usize;
    let mut cfg = cluster_config(period, rtt, suspect, k, *s.pick(&[1u8, 2, 3, 5, 10]), 1400);
    cfg.notify_down_members = s.chance(1, 2);
    if s.chance(1, 3) {
        cfg.periodic_gossip = Some(PeriodicParams { frequency: Duration::from_millis(s.range(period / 4 + 1, 2 * period)), num_members: NonZeroUsize::new(s.range(1, 3) as usize).unwrap() });
    }
    let renewable = s.chance(1, 2);
    let wc = WorldCfg {
        n,
        cfg,
        codec: *s.pick(&[CodecKind::Wire, CodecKind::Wire, CodecKind::Bincode, CodecKind::Postcard]),
        policy: Policy { renew: if renewable { RenewMode::Next } else { RenewMode::Never }, mask: u64::MAX, var_ids: s.chance(1, 4) },
        hcfg: HandlerCfg::default_cfg(),
        net: NetCfg::clean(lmin * MS, lmax * MS),
        gen0: 1,
    };
    let joins = s.chance(1, 2);
    let mut wc = wc;
    let mut start_ns: Vec<u64> = (0..n).map(|_| s.range(0, period) * MS).collect();
    let mut join_to = vec![0u16; n];
    if joins {
        wc.cfg.periodic_announce = Some(PeriodicParams { frequency: Duration::from_millis(s.range(period, 3 * period)), num_members: NonZeroUsize::new(s.range(1, 2) as usize).unwrap() });
        let mut t = 0;
        for i in 1..n {
            t += s.range(1, 2 * period) * MS;
            start_ns[i] = t;
            join_to[i] = s.range(1, i as u64) as u16;
        }
        start_ns[0] = 0;
    }
    // one configuration in two: small packets and application broadcasts, so that datagrams are filled to the brim
    let mut s2 = Stream::new(seed, "c04-params-2");
    let mut items = Vec::new();
    if s2.chance(1, 2) {
        let floor = if wc.policy.var_ids || !wc.codec.is_wire() { 120 } else { 40 };
        wc.cfg.max_packet_size = NonZeroUsize::new(floor + s2.range(0, 80) as usize).unwrap();
        let t0 = *start_ns.iter().max().unwrap();
        let m = s2.range(n as u64, 6 * n as u64);
        for _ in 0..m {
            let t = t0 + s2.range(0, (2 * n as u64 + 4) * period) * MS;
            items.push((t, s2.range(1, n as u64) as u16, s2.range(2, 40) as usize));
        }
    }
    P { wc, start_ns, joins, join_to, items, window_ns: (2 * n as u64) * period * MS, settle_ns: (2 * n as u64 + 2) * period * MS + suspect * MS, sample: match tier { Tier::Quick => 24, Tier::Thorough => 0 } }
}

struct Outcome {
    violations: Vec<Violation>,
    not_formed: bool,
    t_form: u64,
    first_dgram: u64,
    dgrams_in_window: u64,
    sig: u64,
    log: u64,
    dropped_kind: Option<&'static str>,
    stats: crate::frame::Stats,
    sim_ns: u64,
    suspicion_raised: bool,
}

/// One execution; `drop` = index of the datagram to lose (None: base run).
fn execute(p: &P, seed: u64, drop: Option<u64>, formed: Option<(u64, u64)>) -> Outcome {
    let mut w = World::new(p.wc.clone(), seed);
    w.record_kinds = true;
    let n = p.wc.n;
    for a in 1..=n as u16 {
        w.spawn(a, p.wc.gen0);
    }
    if let Some(d) = drop {
        w.drop_idx.insert(d);
    }
    for (i, t) in p.start_ns.iter().enumerate() {
        w.schedule_op(*t, i);
    }
    for (j, (t, _, _)) in p.items.iter().enumerate() {
        w.schedule_op(*t, n + j);
    }
    let mut t_form = *p.start_ns.iter().max().unwrap();
    let mut first_dgram = 0u64;
    let mut forming = p.joins;
    if let Some((t, d0)) = formed {
        t_form = t;
        first_dgram = d0;
    }
    let period_ns = p.wc.cfg.probe_period.as_nanos() as u64;
    let mut t_end = t_form + p.window_ns + p.settle_ns;
    if forming {
        t_end = t_form + 8 * (n as u64 + 2) * period_ns;
    }
    let mut dgrams_in_window = 0;
    let mut vs: Vec<Violation> = Vec::new();
    let mut suspicion_raised = false;
    let mut notes_seen = 0usize;
    loop {
        match w.peek_time() {
            Some(t) if t <= t_end => {}
            _ => break,
        }
        match w.step() {
            Err(op) if op >= n => {
                let (_, a, len) = p.items[op - n];
                let mut item = vec![(op - n) as u8, 1];
                item.resize(len.max(2), 0xa5);
                w.call(a, Input::AddBroadcast(item));
            }
            Err(op) => {
                // bootstrap node op+1 with the full membership (restoring knowledge, no broadcast)
                let a = (op + 1) as u16;
                if p.joins {
                    if op > 0 {
                        let dst = w.id_of(p.join_to[op]);
                        w.call(a, Input::Announce(dst));
                    }
                } else {
                    let others: Vec<Member<_>> = (1..=n as u16).filter(|b| *b != a).map(|b| Member::alive(w.id_of(b))).collect();
                    w.call(a, Input::ApplyMany(others, false));
                }
            }
            Ok(None) => break,
            Ok(Some(_)) => {}
        }
        if forming && w.now >= *p.start_ns.iter().max().unwrap() && w.converged() {
            // the cluster is formed: the enumeration window starts here
            forming = false;
            if formed.is_none() {
                t_form = w.now;
                first_dgram = w.dgrams_sent;
            }
            t_end = t_form + p.window_ns + p.settle_ns;
        }
        if !forming && w.now <= t_form + p.window_ns {
            dgrams_in_window = w.dgrams_sent;
        }
        // oracles on everything that just happened
        while notes_seen < w.notes.len() {
            let (t, a, note) = &w.notes[notes_seen];
            notes_seen += 1;
            match note {
                OwnedNotification::MemberDown(x) => vs.push(Violation { property: "C04", tag: "C04/live-member-declared-down".into(), detail: format!("node {a} notified MemberDown({x}) at t={}ms", t / MS), at: *t }),
                OwnedNotification::Defunct => vs.push(Violation { property: "C04", tag: "C04/live-member-told-down".into(), detail: format!("node {a} notified Defunct at t={}ms", t / MS), at: *t }),
                OwnedNotification::Rejoin(x) => vs.push(Violation { property: "C04", tag: "C04/live-member-told-down".into(), detail: format!("node {a} notified Rejoin({x}) at t={}ms", t / MS), at: *t }),
                OwnedNotification::Idle => vs.push(Violation { property: "C04", tag: "C04/idle".into(), detail: format!("node {a} notified Idle at t={}ms", t / MS), at: *t }),
                _ => {}
            }
        }
        if !vs.is_empty() {
            break;
        }
        if !suspicion_raised {
            for a in w.live_addrs() {
                if w.proc(a).unwrap().obs.state.iter().any(|m| m.state() == State::Suspect) {
                    suspicion_raised = true;
                }
            }
        }
    }
    let not_formed = forming;
    if vs.is_empty() && !not_formed {
        for a in w.live_addrs() {
            let obs = &w.proc(a).unwrap().obs;
            for b in w.live_addrs() {
                if a == b {
                    continue;
                }
                match obs.slot(b) {
                    Some(m) if *m.id() == w.id_of(b) && m.state() == State::Alive => {}
                    other => vs.push(Violation { property: "C04", tag: "C04/not-alive-again".into(), detail: format!("node {a} holds {other:?} for node {b} {} probe periods after the loss", 2 * n + 2), at: w.now }),
                }
            }
        }
    }
    if drop.is_none() {
        // the fault-free base run must be clean in every respect (premise of the enumeration)
        if suspicion_raised {
            vs.push(Violation { property: "C04", tag: "C04/base-run-suspicion".into(), detail: "suspicion in the fault-free base run".into(), at: 0 });
        }
    }
    let mut all = vs;
    all.extend(w.violations.clone());
    Outcome { violations: all, not_formed, t_form, first_dgram, dgrams_in_window, sig: w.sig.0, log: w.log.0, dropped_kind: w.dropped_kinds.first().copied(), stats: w.stats.clone(), sim_ns: w.now, suspicion_raised }
}

pub struct SingleDrop;
impl Scenario for SingleDrop {
    fn name(&self) -> &'static str {
        "single-drop"
    }
    fn gen(&self, seed: u64, tier: Tier, _i: u64) -> Case {
        Case { property: "C04".into(), scenario: self.name().into(), seed, params: serde_json::to_value(gen_params(seed, tier)).unwrap(), steps: vec![], explicit: false }
    }
    fn run(&self, case: &Case) -> RunOut {
        let p: P = serde_json::from_value(case.params.clone()).expect("C04 params");
        let mut out = RunOut::default();
        let base = execute(&p, case.seed, None, None);
        if base.not_formed && base.violations.is_empty() {
            // premise not met (joins did not complete within the budget): discarded, counted
            out.stats.inc("c04_discarded_not_formed");
            out.signature = base.sig;
            return out;
        }
        let formed = Some((base.t_form, base.first_dgram));
        out.sim_ns += base.sim_ns;
        out.stats.merge(&base.stats);
        let d_total = base.dgrams_in_window;
        out.stats.add("c04_base_runs", 1);
        out.evaluations = 1; // the fault-free base run
        if !base.violations.is_empty() {
            out.violations = base.violations;
            out.log_hash = base.log;
            out.signature = base.sig;
            let mut c = case.clone();
            c.explicit = true;
            c.steps = vec![];
            out.concrete = Some(c);
            return out;
        }
        let drops: Vec<u64> = if case.explicit {
            case.steps.iter().filter_map(|v| v.as_u64()).collect()
        } else if p.sample == 0 || d_total - base.first_dgram <= p.sample {
            (base.first_dgram..d_total).collect()
        } else {
            // stride-sampled positions with a seeded offset
            let span = d_total - base.first_dgram;
            let stride = span / p.sample;
            let off = mix2(case.seed, 4) % stride.max(1);
            (0..p.sample).map(|i| base.first_dgram + (off + i * stride).min(span - 1)).collect()
        };
        let mut log = crate::prng::LogHash::new();
        for d in drops {
            let o = execute(&p, case.seed, Some(d), formed);
            out.evaluations += 1;
            out.sim_ns += o.sim_ns;
            out.extra_signatures.push(o.sig);
            log.u(o.log);
            out.stats.add("fault_drop_by_index", o.stats.sums.get("fault_drop_by_index").copied().unwrap_or(0));
            if let Some(k) = o.dropped_kind {
                out.stats.inc(&format!("dropped_{k}"));
            }
            if o.suspicion_raised {
                out.stats.inc("c04_runs_with_suspicion_raised_and_refuted");
            }
            out.stats.add("events", o.stats.sums.get("calls").copied().unwrap_or(0));
            if !o.violations.is_empty() && out.violations.is_empty() {
                let mut vs = o.violations;
                for v in vs.iter_mut() {
                    v.detail = format!("dropped datagram #{d} ({}): {}", o.dropped_kind.unwrap_or("?"), v.detail);
                }
                out.violations = vs;
                let mut c = case.clone();
                c.explicit = true;
                c.steps = vec![json!(d)];
                out.concrete = Some(c);
                break;
            }
        }
        out.nontrivial = out.evaluations > 0;
        out.signature = base.sig;
        out.log_hash = log.0;
        out
    }
    fn steps_minimisable(&self) -> bool {
        false
    }
    fn shrink(&self, case: &Case) -> Vec<Case> {
        // simpler configurations that keep the same drop index are rarely meaningful; try fewer knobs
        let p: P = serde_json::from_value(case.params.clone()).unwrap();
        let mut v = Vec::new();
        if p.wc.cfg.periodic_gossip.is_some() {
            let mut q = p.clone();
            q.wc.cfg.periodic_gossip = None;
            v.push(Case { params: serde_json::to_value(q).unwrap(), ..case.clone() });
        }
        if p.wc.policy.var_ids {
            let mut q = p.clone();
            q.wc.policy.var_ids = false;
            v.push(Case { params: serde_json::to_value(q).unwrap(), ..case.clone() });
        }
        if p.wc.codec != CodecKind::Wire {
            let mut q = p.clone();
            q.wc.codec = CodecKind::Wire;
            v.push(Case { params: serde_json::to_value(q).unwrap(), ..case.clone() });
        }
        v
    }
}

pub fn def() -> CheckDef {
    CheckDef {
        property: "C04",
        level: "fault_enumeration",
        rule: "per sampled (n in 2..=N, fan-out 1..3, notify_down_members, renewable, periodic gossip, codec, latencies, start offsets, seed): the fault-free base run is executed once, then one run per datagram index d in a window of 2n probe periods with exactly the d-th datagram lost (quick: 24 stride-sampled positions, thorough: every position); evaluations = drop runs; non-trivial = a datagram was really dropped; distinct = abstracted event logs of the drop runs",
        assumptions: vec![
            "configuration envelope: one-way latency L <= probe_rtt/4, probe_period > probe_rtt + 4L (the indirect round trip fits in the period), suspect_to_down_after >= probe_period".into(),
            "timers fire exactly on time; no other fault than the single loss".into(),
            "cluster formed by restoring full membership on every node (apply_many without broadcast) at random offsets within one period".into(),
        ],
        real_components: "n real Foca instances (all of src/), the run's codec; all monitors attached to every node",
        stub_components: "network (latency, the single loss) and clock are the simulator",
        batches: vec![Batch { scenario: &SingleDrop, quick: 400, thorough: 1_500 }],
        extra: None,
    }
}
