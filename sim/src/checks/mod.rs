pub mod c01;
pub mod c02;
pub mod c03;
pub mod c04;
pub mod c05;
pub mod c06;
pub mod c07;
pub mod c11;
pub mod c12;
pub mod c14;
pub mod c17;
pub mod c18;
pub mod c20;
pub mod histchecks;

use crate::frame::CheckDef;

pub fn all() -> Vec<CheckDef> {
    let mut v = vec![c01::def(), c02::def(), c03::def(), c04::def(), c05::def(), c06::def(), c07::def(), c11::def(), c12::def(), c14::def(), c17::def(), c18::def(), c20::def()];
    v.extend(histchecks::defs());
    v.sort_by_key(|d| d.property);
    v
}
