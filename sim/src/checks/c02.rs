//! C02 — fault-free cluster: full discovery within a linear number of probe periods and zero
//! false suspicion.

use crate::codec::{enc_header, enc_member, AnyCodec, CodecKind};
use crate::frame::{Batch, Case, CheckDef, RunOut, Scenario, Tier, Violation};
use crate::handler::HandlerCfg;
use crate::id::{Policy, RenewMode, SimId};
use crate::node::Input;
use crate::prng::Stream;
use crate::world::{cluster_config, NetCfg, World, WorldCfg, MS};
use foca::{Codec, Header, Member, Message, OwnedNotification, PeriodicParams, State};
use std::num::NonZeroUsize;
use std::time::Duration;

#[derive(Clone, Debug, serde::Serialize, serde::Deserialize)]
pub struct P {
    pub wc: WorldCfg,
    /// "F1" sequential joins, "F2" concurrent joins with periodic announce, "F3" concurrent without
    pub family: String,
    /// joiner i (node i+1, i >= 1) announces to node join_to[i]
    pub join_to: Vec<u16>,
    /// F1: delay after the previous joiner is known by everyone; F2/F3: absolute announce time
    pub join_ns: Vec<u64>,
    /// packet size is large enough to feed the whole cluster (discovery clause applies)
    pub feeds_whole_cluster: bool,
}

/// Smallest max_packet_size with which every member can feed the whole cluster to every other one
/// (encoded sizes of this codec and foca's own capacity estimate, worst case over pairs).
pub fn feed_min_mps(ids: &[SimId], codec: CodecKind) -> usize {
    let mut worst = 0usize;
    for s in ids {
        for r in ids {
            if s == r {
                continue;
            }
            let h = enc_header(codec, &Header { src: *s, src_incarnation: u16::MAX, dst: *r, message: Message::Feed }).len();
            let others: Vec<usize> = ids.iter().filter(|x| *x != s && *x != r).map(|x| enc_member(codec, &Member::new(*x, u16::MAX, State::Suspect)).len()).collect();
            let need = h + 2 + others.iter().sum::<usize>();
            let count = others.len();
            let identity_len = ((h + 2) / 2).max(1);
            let by_estimate = if count > 5 { h + 2 + count * identity_len + identity_len } else { 0 };
            worst = worst.max(need.max(by_estimate) + 1);
        }
    }
    worst
}

pub fn largest_header(ids: &[SimId], codec: CodecKind) -> usize {
    let mut worst = 0;
    for s in ids.iter().take(6) {
        for r in ids.iter().take(6) {
            for t in ids.iter().take(6) {
                let h = enc_header(codec, &Header { src: *s, src_incarnation: u16::MAX, dst: *r, message: Message::PingReq { target: *t, probe_number: 255 } }).len();
                worst = worst.max(h);
            }
        }
    }
    worst
}

pub fn gen_params(seed: u64, tier: Tier) -> P {
    let mut s = Stream::new(seed, "c02-params");
    let nmax = match tier {
        Tier::Quick => 10,
        Tier::Thorough => 24,
    };
    let n = s.range(2, nmax) as usize;
    let rtt = s.range(20, 400);
    let lmax = s.range(1, (rtt - 1) / 4);
    let lmin = s.range(0, lmax);
    // P/R in [1.05, 5]
    let period = (rtt * s.range(105, 500)) / 100 + 1;
    let suspect = s.range(period, 4 * period);
    let k = s.range(1, 4) as usize;
    let policy = Policy { renew: *s.pick(&[RenewMode::Never, RenewMode::Next]), mask: u64::MAX, var_ids: s.chance(1, 3) };
    crate::id::set_policy(policy);
    let codec = *s.pick(&[CodecKind::Wire, CodecKind::Wire, CodecKind::WireDirty, CodecKind::Bincode, CodecKind::Postcard]);
    let ids: Vec<SimId> = (1..=n as u16).map(|a| SimId::new(a, 1)).collect();
    let min_feed = feed_min_mps(&ids, codec);
    let hdr = largest_header(&ids, codec);
    let (mps, feeds) = match s.below(8) {
        0 | 4 => (min_feed, true),
        1 | 5 => (min_feed + s.range(0, 30) as usize, true),
        2 => (1400, true),
        3 if min_feed > hdr + 1 => (s.range(hdr as u64, min_feed as u64 - 1) as usize, false),
        _ => (s.range(min_feed as u64, 1400.max(min_feed as u64)) as usize, true),
    };
    let mut cfg = cluster_config(period, rtt, suspect, k, s.range(1, 10) as u8, mps);
    cfg.notify_down_members = s.chance(1, 2);
    if s.chance(1, 2) {
        cfg.periodic_gossip = Some(PeriodicParams { frequency: Duration::from_millis(s.range(period / 5 + 1, 2 * period)), num_members: NonZeroUsize::new(s.range(1, 3) as usize).unwrap() });
    }
    let family = *s.pick(&["F1", "F1", "F2", "F2", "F3"]);
    if family == "F2" || (family == "F1" && s.chance(1, 2)) {
        cfg.periodic_announce = Some(PeriodicParams { frequency: Duration::from_millis(s.range(period, 4 * period)), num_members: NonZeroUsize::new(s.range(1, 2) as usize).unwrap() });
    }
    if s.chance(1, 4) {
        cfg.periodic_announce_to_down_members = Some(PeriodicParams { frequency: Duration::from_millis(s.range(period, 4 * period)), num_members: NonZeroUsize::new(1).unwrap() });
    }
    let mut join_to = vec![0u16; n];
    let mut join_ns = vec![0u64; n];
    for i in 1..n {
        join_to[i] = s.range(1, i as u64) as u16;
        join_ns[i] = if family == "F1" { s.range(0, 2 * period) * MS } else { s.range(0, 3 * period) * MS };
    }
    let wc = WorldCfg { n, cfg, codec, policy, hcfg: HandlerCfg::default_cfg(), net: NetCfg::clean(lmin * MS, lmax * MS), gen0: 1 };
    P { wc, family: family.to_string(), join_to, join_ns, feeds_whole_cluster: feeds }
}

fn told_about(w: &World, i: u16, j: u16) -> bool {
    w.proc(i).map(|p| p.monitors.told_addrs.contains(&j)).unwrap_or(false)
}

fn backlog_mentions(w: &World, node: u16, addr: u16) -> bool {
    let Some(p) = w.proc(node) else { return false };
    p.obs.snap.updates.iter().any(|(d, _)| {
        let mut cur: &[u8] = d;
        AnyCodec::new(w.wc.codec).decode_member(&mut cur).map(|m| m.id().addr == addr).unwrap_or(false)
    })
}

pub fn execute(p: &P, seed: u64) -> RunOut {
    let mut out = RunOut::default();
    let mut w = World::new(p.wc.clone(), seed);
    let n = p.wc.n;
    for a in 1..=n as u16 {
        w.spawn(a, p.wc.gen0);
    }
    let period = p.wc.cfg.probe_period.as_nanos() as u64;
    let announce_period = p.wc.cfg.periodic_announce.as_ref().map(|x| x.frequency.as_nanos() as u64).unwrap_or(0);
    let sequential = p.family == "F1";
    let mut next_joiner = 1usize; // index into join_to
    let mut last_announce: u64 = 0;
    if sequential {
        if n > 1 {
            w.schedule_op(p.join_ns[1], 1);
        }
    } else {
        for i in 1..n {
            w.schedule_op(p.join_ns[i], i);
        }
    }
    let mut joined = 1usize; // nodes 1..=joined have announced
    let mut waiting_for_integration = false;
    let bound = match p.family.as_str() {
        "F1" => (2 * n as u64 + 1) * period,
        "F2" => (2 * n as u64 + 1) * period + (n as u64 + 4) * announce_period,
        _ => (6 * n as u64 + 4) * period,
    };
    let mut vs: Vec<Violation> = Vec::new();
    let mut notes_seen = 0;
    let mut errs_seen = 0;
    let mut all_announced = n == 1;
    let mut converged_at: Option<u64> = None;
    let hard_stop = |last: u64| last + bound + 2 * period;
    loop {
        let Some(t) = w.peek_time() else { break };
        if all_announced && t > hard_stop(last_announce) {
            break;
        }
        if !all_announced && t > 400 * (n as u64 + 2) * period {
            break; // F1 never got to the next joiner: reported below as incomplete
        }
        match w.step() {
            Err(i) => {
                let a = (i + 1) as u16;
                let dst = w.id_of(p.join_to[i]);
                w.call(a, Input::Announce(dst));
                joined = joined.max(i + 1);
                last_announce = w.now;
                if sequential {
                    next_joiner = i + 1;
                    waiting_for_integration = true;
                    if next_joiner >= n {
                        all_announced = true;
                    }
                } else if (1..n).all(|k| p.join_ns[k] <= w.now) {
                    all_announced = true;
                }
            }
            Ok(None) => break,
            Ok(Some(_)) => {}
        }
        // always-on oracles
        while notes_seen < w.notes.len() {
            let (t, a, note) = &w.notes[notes_seen];
            notes_seen += 1;
            if matches!(note, OwnedNotification::MemberDown(_) | OwnedNotification::Idle | OwnedNotification::Defunct | OwnedNotification::Rejoin(_)) {
                vs.push(Violation { property: "C02", tag: "C02/notification-in-fault-free-run".into(), detail: format!("node {a} notified {note:?} at t={}ms", t / MS), at: *t });
            }
        }
        while errs_seen < w.errors.len() {
            let (t, a, k, e) = &w.errors[errs_seen];
            errs_seen += 1;
            vs.push(Violation { property: "C02", tag: "C02/error-in-fault-free-run".into(), detail: format!("node {a}: {k} returned {e:?} at t={}ms", t / MS), at: *t });
        }
        if let Some(Some(_)) = None::<Option<()>> {}
        for a in 1..=n as u16 {
            if let Some(pr) = w.proc(a) {
                if let Some(m) = pr.obs.state.iter().find(|m| m.state() != State::Alive) {
                    vs.push(Violation { property: "C02", tag: "C02/false-suspicion".into(), detail: format!("node {a} holds {:?} at t={}ms in a fault-free run", m, w.now / MS), at: w.now });
                }
            }
        }
        if !vs.is_empty() {
            break;
        }
        // F1: the next joiner announces once the previous one is integrated
        if sequential && waiting_for_integration {
            let part: Vec<u16> = (1..=joined as u16).collect();
            let integrated = part.iter().all(|a| {
                let view = w.view(*a);
                part.iter().filter(|b| *b != a).all(|b| view.contains(&w.id_of(*b)))
            });
            // with packets too small to feed the whole cluster, integration is not promised (only the
            // zero-false-suspicion clause applies): do not wait for it beyond three times the bound
            let give_up = !p.feeds_whole_cluster && (w.now - last_announce) > 3 * (2 * joined as u64 + 1) * period;
            if give_up && !integrated {
                out.stats.inc("c02_f1_small_packets_joiner_not_integrated_moved_on");
            }
            if integrated || give_up {
                waiting_for_integration = false;
                if p.feeds_whole_cluster {
                    out.stats.max("c02_f1_integration_permille_of_bound", (w.now - last_announce) * 1000 / ((2 * joined as u64 + 1) * period));
                }
                if p.feeds_whole_cluster && std::env::var_os("VERIF_DEBUG_C02").is_some() && (w.now - last_announce) * 1000 / ((2 * joined as u64 + 1) * period) > 800 {
                    eprintln!("slow F1 integration: seed={seed} joined={joined} took={}ms period={}ms", (w.now - last_announce) / MS, period / MS);
                }
                if (w.now - last_announce) > (2 * joined as u64 + 1) * period && p.feeds_whole_cluster {
                    vs.push(Violation { property: "C02", tag: "C02/discovery-too-slow".into(), detail: format!("F1: joiner {} integrated after {} probe periods (bound {})", joined, (w.now - last_announce) / period, 2 * joined + 1), at: w.now });
                    break;
                }
                if next_joiner < n {
                    w.schedule_op(w.now + p.join_ns[next_joiner], next_joiner);
                }
            }
        }
        if all_announced && converged_at.is_none() && w.converged() {
            converged_at = Some(w.now);
            // keep running a little to exercise the steady state, then stop
            if p.family != "F3" || true {
                let stop = w.now + 3 * period;
                while let Some(t) = w.peek_time() {
                    if t > stop {
                        break;
                    }
                    match w.step() {
                        Err(_) | Ok(None) => break,
                        Ok(Some(_)) => {}
                    }
                    for a in 1..=n as u16 {
                        if let Some(pr) = w.proc(a) {
                            if let Some(m) = pr.obs.state.iter().find(|m| m.state() != State::Alive) {
                                vs.push(Violation { property: "C02", tag: "C02/false-suspicion".into(), detail: format!("node {a} holds {:?} at t={}ms in a fault-free run", m, w.now / MS), at: w.now });
                            }
                        }
                    }
                    if !vs.is_empty() {
                        break;
                    }
                }
            }
            break;
        }
    }
    out.stats.inc(&format!("c02_runs_{}", p.family));
    if !p.feeds_whole_cluster {
        out.stats.inc("c02_runs_packet_too_small_to_feed_cluster");
    }
    if vs.is_empty() && p.feeds_whole_cluster {
        match converged_at {
            Some(t) => {
                let took = t.saturating_sub(last_announce);
                out.stats.max(&format!("c02_{}_convergence_permille_of_bound", p.family), took * 1000 / bound.max(1));
                out.stats.max(&format!("c02_{}_convergence_probe_periods", p.family), took / period);
                if took > bound && p.family != "F3" {
                    vs.push(Violation { property: "C02", tag: "C02/discovery-too-slow".into(), detail: format!("{}: complete views after {} probe periods, bound {}", p.family, took / period, bound / period), at: t });
                }
            }
            None => {
                // classify every missing pair
                let mut never_told_only = true;
                let mut detail = String::new();
                for a in 1..=n as u16 {
                    let view = w.view(a);
                    for b in 1..=n as u16 {
                        if a == b || view.contains(&w.id_of(b)) {
                            continue;
                        }
                        let mutual = !w.view(b).contains(&w.id_of(a));
                        let told = told_about(&w, a, b) || told_about(&w, b, a);
                        let pending = (1..=n as u16).any(|c| backlog_mentions(&w, c, a) || backlog_mentions(&w, c, b));
                        // ... and no Feed either of them received came from a member that knew the other one
                        let fed = |r: u16, x: u16| w.feed_log.iter().any(|(_, to, known)| *to == r && known.contains(&x));
                        let could_have_been_fed = fed(a, b) || fed(b, a);
                        let sig = p.wc.cfg.periodic_announce.is_none() && mutual && !told && !pending && !could_have_been_fed;
                        if !sig {
                            never_told_only = false;
                        }
                        if detail.is_empty() || !sig {
                            detail = format!("node {a} does not list node {b} {} probe periods after the last announce (mutual: {mutual}, ever told: {told}, a Feed one of them received came from a member that knew the other: {could_have_been_fed}, updates about them still pending somewhere: {pending}, periodic announce: {})",
                                (w.now - last_announce) / period, p.wc.cfg.periodic_announce.is_some());
                        }
                    }
                }
                let tag = if never_told_only { "C02/incomplete-view:mutually-unaware-never-told" } else { "C02/incomplete-view" };
                vs.push(Violation { property: "C02", tag: tag.into(), detail: format!("{}: {detail}", p.family), at: w.now });
            }
        }
    }
    out.nontrivial = n >= 2;
    out.signature = w.sig.0;
    out.log_hash = w.log.0;
    out.sim_ns = w.now;
    out.stats.merge(&w.stats);
    out.stats.add("events", w.events);
    vs.extend(w.violations.clone());
    out.violations = vs;
    out
}

pub struct Discovery;
impl Scenario for Discovery {
    fn name(&self) -> &'static str {
        "fault-free-cluster"
    }
    fn gen(&self, seed: u64, tier: Tier, _i: u64) -> Case {
        Case { property: "C02".into(), scenario: self.name().into(), seed, params: serde_json::to_value(gen_params(seed, tier)).unwrap(), steps: vec![], explicit: false }
    }
    fn run(&self, case: &Case) -> RunOut {
        let p: P = serde_json::from_value(case.params.clone()).expect("C02 params");
        execute(&p, case.seed)
    }
    fn steps_minimisable(&self) -> bool {
        false
    }
    fn shrink(&self, case: &Case) -> Vec<Case> {
        let p: P = serde_json::from_value(case.params.clone()).unwrap();
        let mut v = Vec::new();
        let mut push = |q: P| v.push(Case { params: serde_json::to_value(q).unwrap(), ..case.clone() });
        if p.wc.n > 2 {
            let mut q = p.clone();
            q.wc.n -= 1;
            q.join_to.pop();
            q.join_ns.pop();
            push(q);
        }
        if p.wc.cfg.periodic_gossip.is_some() {
            let mut q = p.clone();
            q.wc.cfg.periodic_gossip = None;
            push(q);
        }
        if p.wc.cfg.periodic_announce_to_down_members.is_some() {
            let mut q = p.clone();
            q.wc.cfg.periodic_announce_to_down_members = None;
            push(q);
        }
        if p.wc.policy.var_ids && p.wc.cfg.max_packet_size.get() >= 1400 {
            let mut q = p.clone();
            q.wc.policy.var_ids = false;
            push(q);
        }
        if p.wc.codec != CodecKind::Wire && p.wc.cfg.max_packet_size.get() >= 1400 {
            let mut q = p.clone();
            q.wc.codec = CodecKind::Wire;
            push(q);
        }
        v
    }
}

pub fn def() -> CheckDef {
    CheckDef {
        property: "C02",
        level: "exploration",
        rule: "seeded fault-free clusters: n in 2..=N (quick 10, thorough 24), join plans by family (F1 sequential joins, F2 concurrent joins with periodic announce, F3 concurrent joins without), configuration swarm (fan-out 1..4, max_transmissions 1..10, periodic gossip/announce on or off, probe_period/probe_rtt in [1.05,5], packet sizes from just-large-enough-to-feed-the-cluster to 1400 and, for the no-false-suspicion clause only, down to the largest header; fixed/variable identity encodings; four codecs), per-datagram latencies below probe_rtt/4; non-trivial = n >= 2; distinct = abstracted event log of the whole cluster",
        assumptions: vec![
            "premise enforced: one-way latency < probe_rtt/4, probe_rtt < probe_period, every timer fires exactly at its deadline, no loss, no duplication".into(),
            "discovery bounds: F1 (2n+1) probe periods after each announce; F2 (2n+1) probe periods + (n+4) announce periods after the last announce; F3 has no bound (known finding K-C02-1 when the stalled pairs were never told of each other)".into(),
        ],
        real_components: "n real Foca instances (all of src/), the run's codec; all monitors attached to every node",
        stub_components: "network (latency only) and clock are the simulator",
        batches: vec![Batch { scenario: &Discovery, quick: 12_000, thorough: 400_000 }],
        extra: None,
    }
}
