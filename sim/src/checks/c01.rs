//! C01 — membership knowledge is a join-semilattice. Delivery order and multiplicity of updates
//! are the simulated fault; the referee is the reference merge model of DESIGN 4.2.

use crate::codec::CodecKind;
use crate::frame::{Batch, Case, CheckDef, RunOut, Scenario, Tier, Violation};
use crate::handler::HandlerCfg;
use crate::id::{Policy, SimId};
use crate::models::{merge, sorted};
use crate::node::{Input, Obs, Setup};
use crate::prng::{LogHash, Stream};
use crate::script::Driver;
use foca::{Config, Identity, Member, Message, State};

const OWN: SimId = SimId::new(1, 3);
const RELAY: SimId = SimId::new(9, 1);

#[derive(Clone, Debug, serde::Serialize, serde::Deserialize)]
pub struct P {
    pub updates: Vec<Member<SimId>>,
    pub schedules: usize,
    pub codec: CodecKind,
}

fn setup(codec: CodecKind, rng_seed: u64) -> Setup {
    let mut cfg = Config::simple();
    cfg.max_packet_size = std::num::NonZeroUsize::new(1400).unwrap();
    Setup { id: OWN, cfg, codec, policy: Policy::never(), hcfg: HandlerCfg::default_cfg(), rng_seed, acc_twin: false }
}

fn gen_update(s: &mut Stream, addrs: u16, gens: u32) -> Member<SimId> {
    loop {
        let addr = s.range(1, addrs as u64) as u16;
        let gen = s.range(1, gens as u64) as u32;
        let id = SimId::new(addr, gen);
        if id == OWN {
            continue;
        }
        let inc = match s.below(8) {
            0 => 0,
            1 => 1,
            2 => 2,
            3 => u16::MAX - 1,
            4 => u16::MAX,
            5 => s.below(4) as u16,
            6 => u16::MAX - s.below(3) as u16,
            _ => s.below(65536) as u16,
        };
        let st = *s.pick(&[State::Alive, State::Suspect, State::Down]);
        return Member::new(id, inc, st);
    }
}

/// Table keyed by address with the incarnation of Down records masked.
fn masked(state: &[Member<SimId>]) -> Vec<Member<SimId>> {
    sorted(state.iter().filter(|m| *m.id() != RELAY).map(|m| if m.state() == State::Down { Member::new(*m.id(), 0, State::Down) } else { m.clone() }).collect())
}

fn model_fold(updates: &[Member<SimId>]) -> Vec<Member<SimId>> {
    let mut t = Vec::new();
    for u in updates {
        merge(OWN, &mut t, u);
    }
    masked(&t)
}

/// rank comparison: does `new` sit at or above `old` in the precedence order?
fn forward(old: &Member<SimId>, new: &Member<SimId>) -> bool {
    if old.id() != new.id() {
        return new.id().win_addr_conflict(old.id());
    }
    if old.state() == State::Down {
        return new.state() == State::Down;
    }
    if new.state() == State::Down {
        return true;
    }
    if new.incarnation() != old.incarnation() {
        return new.incarnation() > old.incarnation();
    }
    new.state() == old.state() || (old.state() == State::Alive && new.state() == State::Suspect)
}

fn check_forward(pre: &Obs, post: &Obs, vs: &mut Vec<Violation>, at: u64) {
    for old in &pre.state {
        match post.slot(old.id().addr) {
            Some(new) => {
                if !forward(old, new) {
                    vs.push(Violation { property: "C01", tag: "C01/record-moved-backwards".into(), detail: format!("{old:?} became {new:?}"), at });
                }
            }
            None => vs.push(Violation { property: "C01", tag: "C01/record-lost".into(), detail: format!("{old:?} disappeared"), at }),
        }
    }
}

/// Apply one delivery schedule of `updates` to a fresh instance; returns the driver.
fn run_schedule(p: &P, sched_seed: u64, vs: &mut Vec<Violation>) -> Driver {
    let mut s = Stream::new(sched_seed, "c01-schedule");
    let mut d = Driver::new(setup(p.codec, s.next()));
    d.step(Input::ApplyMany(vec![Member::alive(RELAY)], false));
    let mut seq: Vec<Member<SimId>> = p.updates.clone();
    s.shuffle(&mut seq);
    let dups = s.below(5) as usize;
    for _ in 0..dups {
        let x = s.pick(&p.updates).clone();
        let pos = s.below(seq.len() as u64 + 1) as usize;
        seq.insert(pos, x);
    }
    let mut i = 0;
    while i < seq.len() {
        let n = s.range(1, 4).min((seq.len() - i) as u64) as usize;
        let batch = seq[i..i + n].to_vec();
        i += n;
        let pre = d.obs.clone();
        match s.below(3) {
            0 => {
                d.step(Input::ApplyMany(batch, true));
            }
            1 => {
                d.step(Input::ApplyMany(batch, false));
            }
            _ => {
                let kind = s.pick(&[Message::Gossip, Message::Feed, Message::Ping(3), Message::Ack(9)]).clone();
                d.deliver(RELAY, 0, kind, &batch);
            }
        }
        if d.dead() {
            break;
        }
        let post = d.obs.clone();
        check_forward(&pre, &post, vs, d.history.len() as u64);
    }
    d
}

fn idempotence(d: &mut Driver, vs: &mut Vec<Violation>) {
    if d.dead() {
        return;
    }
    let own_state = d.obs.state.clone();
    let pre = d.obs.clone();
    let bcast = d.history.len() % 2 == 0;
    let rec = d.step(Input::ApplyMany(own_state, bcast));
    if !rec.no_effects() || !rec.result.is_ok() || pre != d.obs {
        vs.push(Violation { property: "C01", tag: "C01/reapplying-own-state-not-a-noop".into(), detail: format!("apply_many(own full state): result {:?}, {} effect(s), state changed: {}", rec.result, rec.fx.len(), pre != d.obs), at: d.history.len() as u64 });
    }
}

pub fn run_params(p: &P, seed: u64) -> RunOut {
    let mut out = RunOut::default();
    let mut vs = Vec::new();
    let want = model_fold(&p.updates);
    // the model itself must not depend on the order (self-check of the referee)
    let mut rev = p.updates.clone();
    rev.reverse();
    if model_fold(&rev) != want {
        vs.push(Violation { property: "C01", tag: "HARNESS/reference-model-order-dependent".into(), detail: format!("{:?}", p.updates), at: 0 });
    }
    let mut first: Option<Vec<Member<SimId>>> = None;
    let mut sig = LogHash::new();
    let mut log = LogHash::new();
    for k in 0..p.schedules {
        let mut d = run_schedule(p, crate::prng::mix2(seed, k as u64), &mut vs);
        let got = masked(&d.obs.state);
        if got != want {
            vs.push(Violation { property: "C01", tag: "C01/differs-from-reference-merge".into(), detail: format!("schedule {k}: instance holds {got:?}, SWIM precedence gives {want:?}"), at: k as u64 });
        }
        match &first {
            None => first = Some(got.clone()),
            Some(f) => {
                if *f != got {
                    vs.push(Violation { property: "C01", tag: "C01/order-dependent-view".into(), detail: format!("schedule 0 gives {f:?}, schedule {k} gives {got:?}"), at: k as u64 });
                }
            }
        }
        idempotence(&mut d, &mut vs);
        sig.u(d.sig.0);
        log.u(d.log.0);
        out.stats.merge(&d.stats);
        vs.extend(d.violations.iter().filter(|v| v.property != "C01" || !v.tag.contains("merge-model")).cloned());
        vs.extend(d.violations.iter().filter(|v| v.tag.contains("merge-model")).cloned());
        if !vs.is_empty() {
            break;
        }
    }
    out.evaluations = p.schedules as u64;
    out.nontrivial = p.updates.len() >= 2;
    out.stats.add("c01_updates", p.updates.len() as u64);
    let conflicts = p.updates.iter().any(|a| p.updates.iter().any(|b| a.id().addr == b.id().addr && a.id() != b.id()));
    if conflicts {
        out.stats.inc("c01_multisets_with_address_conflict");
    }
    if p.updates.iter().any(|m| m.id().addr == OWN.addr) {
        out.stats.inc("c01_multisets_with_own_address_generations");
    }
    out.signature = sig.0;
    out.log_hash = log.0;
    vs.dedup_by(|a, b| a.tag == b.tag && a.detail == b.detail);
    out.violations = vs;
    out
}

pub struct Multisets;
impl Scenario for Multisets {
    fn name(&self) -> &'static str {
        "multiset-schedules"
    }
    fn gen(&self, seed: u64, _tier: Tier, _i: u64) -> Case {
        let mut s = Stream::new(seed, "c01-multiset");
        let addrs = s.range(2, 5) as u16;
        let gens = s.range(1, 4) as u32;
        let n = s.range(1, 10) as usize;
        let p = P { updates: (0..n).map(|_| gen_update(&mut s, addrs, gens)).collect(), schedules: s.range(8, 16) as usize, codec: *s.pick(&[CodecKind::Wire, CodecKind::Wire, CodecKind::Postcard, CodecKind::Bincode]) };
        Case { property: "C01".into(), scenario: self.name().into(), seed, params: serde_json::to_value(p).unwrap(), steps: vec![], explicit: false }
    }
    fn run(&self, case: &Case) -> RunOut {
        let p: P = serde_json::from_value(case.params.clone()).expect("C01 params");
        run_params(&p, case.seed)
    }
    fn steps_minimisable(&self) -> bool {
        false
    }
    fn shrink(&self, case: &Case) -> Vec<Case> {
        let p: P = serde_json::from_value(case.params.clone()).unwrap();
        let mut v = Vec::new();
        for i in 0..p.updates.len() {
            if p.updates.len() > 1 {
                let mut q = p.clone();
                q.updates.remove(i);
                v.push(Case { params: serde_json::to_value(q).unwrap(), ..case.clone() });
            }
        }
        if p.codec != CodecKind::Wire {
            let mut q = p.clone();
            q.codec = CodecKind::Wire;
            v.push(Case { params: serde_json::to_value(q).unwrap(), ..case.clone() });
        }
        v
    }
}

// complete sweep: all sequences of length <= 3 over a 36-update alphabet
fn alphabet() -> Vec<Member<SimId>> {
    let mut v = Vec::new();
    for addr in [2u16, 1] {
        for gen in [1u32, 2] {
            let id = SimId::new(addr, if addr == 1 { gen + 3 } else { gen });
            for inc in [0u16, 1, u16::MAX] {
                for st in [State::Alive, State::Suspect, State::Down] {
                    v.push(Member::new(id, inc, st));
                }
            }
        }
    }
    v
}

pub struct Sweep;
impl Scenario for Sweep {
    fn name(&self) -> &'static str {
        "depth3-sweep"
    }
    fn gen(&self, seed: u64, _tier: Tier, i: u64) -> Case {
        let a = alphabet();
        let n = a.len() as u64;
        // index -> sequence of length 1, 2 or 3
        let (len, mut k) = if i < n { (1, i) } else if i < n + n * n { (2, i - n) } else { (3, i - n - n * n) };
        let mut ups = Vec::new();
        for _ in 0..len {
            ups.push(a[(k % n) as usize].clone());
            k /= n;
        }
        let p = P { updates: ups, schedules: 0, codec: CodecKind::Wire };
        Case { property: "C01".into(), scenario: self.name().into(), seed, params: serde_json::to_value(p).unwrap(), steps: vec![], explicit: false }
    }
    fn run(&self, case: &Case) -> RunOut {
        // exactly this order, one update per apply_many call (second address is the instance's own)
        let p: P = serde_json::from_value(case.params.clone()).expect("C01 params");
        let mut out = RunOut::default();
        let mut vs = Vec::new();
        let mut d = Driver::new(setup(CodecKind::Wire, case.seed));
        for u in &p.updates {
            let pre = d.obs.clone();
            d.step(Input::ApplyMany(vec![u.clone()], true));
            check_forward(&pre, &d.obs.clone(), &mut vs, d.history.len() as u64);
        }
        let got = masked(&d.obs.state);
        let want = model_fold(&p.updates);
        if got != want {
            vs.push(Violation { property: "C01", tag: "C01/differs-from-reference-merge".into(), detail: format!("sequence {:?}: instance holds {got:?}, SWIM precedence gives {want:?}", p.updates), at: 0 });
        }
        let mut srt = p.updates.clone();
        srt.sort_by_key(|m| (m.id().addr, m.id().gen, m.incarnation(), m.state() as u8));
        if model_fold(&srt) != want {
            vs.push(Violation { property: "C01", tag: "HARNESS/reference-model-order-dependent".into(), detail: format!("{:?}", p.updates), at: 0 });
        }
        idempotence(&mut d, &mut vs);
        vs.extend(d.violations.clone());
        out.nontrivial = true;
        // every enumerated sequence is a distinct case: the signature is the concrete event log
        out.signature = d.log.0;
        out.log_hash = d.log.0;
        out.stats.merge(&d.stats);
        out.violations = vs;
        out
    }
    fn steps_minimisable(&self) -> bool {
        false
    }
    fn exhaustive_len(&self, tier: Tier) -> Option<u64> {
        let n = alphabet().len() as u64;
        Some(match tier {
            Tier::Quick => n + n * n,
            Tier::Thorough => n + n * n + n * n * n,
        })
    }
}

#[derive(Clone, Debug, serde::Serialize, serde::Deserialize)]
pub struct XP {
    pub a: Vec<Member<SimId>>,
    pub b: Vec<Member<SimId>>,
}

/// Two instances built from independent multisets exchange full states in both directions.
pub struct Exchange;
impl Scenario for Exchange {
    fn name(&self) -> &'static str {
        "state-exchange"
    }
    fn gen(&self, seed: u64, _tier: Tier, _i: u64) -> Case {
        let mut s = Stream::new(seed, "c01-exchange");
        let addrs = s.range(3, 6) as u16;
        let gens = s.range(1, 3) as u32;
        let mk = |s: &mut Stream| -> Vec<Member<SimId>> { (0..s.range(0, 8)).map(|_| gen_update(s, addrs, gens)).collect() };
        let p = XP { a: mk(&mut s), b: mk(&mut s) };
        Case { property: "C01".into(), scenario: self.name().into(), seed, params: serde_json::to_value(p).unwrap(), steps: vec![], explicit: false }
    }
    fn run(&self, case: &Case) -> RunOut {
        let p: XP = serde_json::from_value(case.params.clone()).expect("C01 exchange params");
        let mut out = RunOut::default();
        let ida = OWN;
        let idb = SimId::new(2, 2);
        let mut sa = setup(CodecKind::Wire, case.seed);
        sa.id = ida;
        let mut sb = setup(CodecKind::Wire, case.seed ^ 1);
        sb.id = idb;
        let mut da = Driver::new(sa);
        let mut db = Driver::new(sb);
        da.step(Input::ApplyMany(p.a.iter().filter(|m| *m.id() != ida).cloned().collect(), true));
        db.step(Input::ApplyMany(p.b.iter().filter(|m| *m.id() != idb).cloned().collect(), true));
        // a -> b, then b -> a (full states, as documented on iter_membership_state)
        let from_a: Vec<Member<SimId>> = da.obs.state.iter().filter(|m| *m.id() != idb).cloned().collect();
        db.step(Input::ApplyMany(from_a, true));
        let from_b: Vec<Member<SimId>> = db.obs.state.iter().filter(|m| *m.id() != ida).cloned().collect();
        da.step(Input::ApplyMany(from_b, true));
        let third = |st: &[Member<SimId>]| -> Vec<Member<SimId>> { masked(st).into_iter().filter(|m| m.id().addr != ida.addr && m.id().addr != idb.addr).collect() };
        let (va, vb) = (third(&da.obs.state), third(&db.obs.state));
        let mut vs = Vec::new();
        if va != vb && !da.dead() && !db.dead() {
            vs.push(Violation { property: "C01", tag: "C01/state-exchange-disagreement".into(), detail: format!("after exchanging full states: {va:?} vs {vb:?}"), at: 0 });
        }
        vs.extend(da.violations.clone());
        vs.extend(db.violations.clone());
        out.nontrivial = !p.a.is_empty() && !p.b.is_empty();
        let mut sig = LogHash::new();
        sig.u(da.sig.0);
        sig.u(db.sig.0);
        out.signature = sig.0;
        out.log_hash = da.log.0 ^ db.log.0.rotate_left(1);
        out.stats.merge(&da.stats);
        out.stats.merge(&db.stats);
        out.violations = vs;
        out
    }
    fn steps_minimisable(&self) -> bool {
        false
    }
    fn shrink(&self, case: &Case) -> Vec<Case> {
        let p: XP = serde_json::from_value(case.params.clone()).unwrap();
        let mut v = Vec::new();
        for i in 0..p.a.len() {
            let mut q = p.clone();
            q.a.remove(i);
            v.push(Case { params: serde_json::to_value(q).unwrap(), ..case.clone() });
        }
        for i in 0..p.b.len() {
            let mut q = p.clone();
            q.b.remove(i);
            v.push(Case { params: serde_json::to_value(q).unwrap(), ..case.clone() });
        }
        v
    }
}

pub fn def() -> CheckDef {
    CheckDef {
        property: "C01",
        level: "exploration",
        rule: "seeded multisets of 1..10 updates over 2..5 addresses x 1..4 generations (incl. other generations of the instance's own address), incarnations boundary-biased over the full u16 range, three states; per multiset 8..16 delivery schedules (permutation, 0..4 duplicates, batches of 1..4 through apply_many with/without broadcast or inside Gossip/Feed/Ping/Ack datagrams from an active sender), each on a fresh real instance; plus a complete sweep of all sequences of length <= 2 (quick) / <= 3 (thorough) over a 36-update alphabet; plus pairs of instances exchanging full states; evaluations = schedules executed; non-trivial = multiset of >= 2 updates; distinct = abstracted event logs of all schedules of a multiset",
        assumptions: vec![
            "the referee is a ~40-line reference merge written from SWIM 4.2 and the Identity docs (models::merge); its own order-independence is self-checked on every multiset".into(),
            "incarnation remembered next to Down is masked, as the property allows".into(),
        ],
        real_components: "one (exchange: two) real Foca instance per schedule; datagrams decoded by the real handle_data path",
        stub_components: "the sender of update-carrying datagrams is a scripted peer",
        batches: vec![
            Batch { scenario: &Multisets, quick: 40_000, thorough: 2_000_000 },
            Batch { scenario: &Sweep, quick: 0, thorough: 0 },
            Batch { scenario: &Exchange, quick: 100_000, thorough: 5_000_000 },
            // first clause (a record only moves forward in the precedence order) as a monitor on every call of the
            // shared histories, chaos pool and exhaustive batches: all input kinds, not just update streams
            Batch { scenario: &crate::checks::histchecks::H01, quick: 40_000, thorough: 3_000_000 },
            Batch { scenario: crate::checks::histchecks::chaos_for("C01"), quick: 6_000, thorough: 150_000 },
            Batch { scenario: crate::checks::histchecks::exhaustive_for("C01"), quick: 0, thorough: 0 },
        ],
        extra: None,
    }
}
