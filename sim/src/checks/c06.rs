//! C06 — Foca never panics. Adversarial histories in two build profiles (debug assertions and
//! overflow checks on / off) plus the configuration constructors for every cluster size.

use crate::checks::histchecks::h06;
use crate::frame::{Batch, CheckDef, Tier};
use serde_json::{json, Value};
use std::num::NonZeroU32;
use std::sync::atomic::{AtomicU64, Ordering};

fn constructors(tier: Tier, seed: u64) -> Value {
    let total: u64 = match tier {
        Tier::Quick => 10_000_000,
        Tier::Thorough => u32::MAX as u64,
    };
    let exhaustive = matches!(tier, Tier::Thorough);
    let panics = AtomicU64::new(0);
    let first_bad = AtomicU64::new(0);
    let distinct_max_tx = std::sync::Mutex::new(std::collections::BTreeSet::new());
    let workers = std::thread::available_parallelism().map(|n| n.get()).unwrap_or(4) as u64;
    std::thread::scope(|s| {
        for w in 0..workers {
            let panics = &panics;
            let first_bad = &first_bad;
            let distinct = &distinct_max_tx;
            s.spawn(move || {
                let mut local = std::collections::BTreeSet::new();
                let mut i = w;
                while i < total {
                    let n: u32 = if exhaustive {
                        (i + 1) as u32
                    } else if i < 4096 {
                        // boundaries: small values, powers of ten and two, the top of the range
                        match i % 4 {
                            0 => (i / 4 + 1) as u32,
                            1 => u32::MAX - (i / 4) as u32,
                            2 => 10u32.saturating_pow((i / 4 % 10) as u32).saturating_add((i / 40) as u32),
                            _ => 1u32.checked_shl((i / 4 % 32) as u32).unwrap_or(1).saturating_add((i / 128) as u32),
                        }
                    } else {
                        (crate::prng::draw(seed, 0xC06, i) as u32).max(1)
                    };
                    let n = NonZeroU32::new(n.max(1)).unwrap();
                    let r = std::panic::catch_unwind(|| {
                        let a = foca::Config::new_lan(n);
                        let b = foca::Config::new_wan(n);
                        (a.max_transmissions.get(), b.max_transmissions.get(), a.suspect_to_down_after, b.suspect_to_down_after)
                    });
                    match r {
                        Ok((a, b, sa, sb)) => {
                            local.insert((a, b, sa.as_millis() as u64, sb.as_millis() as u64));
                        }
                        Err(_) => {
                            panics.fetch_add(1, Ordering::Relaxed);
                            let _ = first_bad.compare_exchange(0, n.get() as u64, Ordering::Relaxed, Ordering::Relaxed);
                        }
                    }
                    i += workers;
                }
                distinct.lock().unwrap().extend(local);
            });
        }
    });
    let p = panics.load(Ordering::Relaxed);
    let mut lines = Vec::new();
    if p > 0 {
        let bad = first_bad.load(Ordering::Relaxed);
        let root = crate::frame::verif_root();
        let _ = std::fs::create_dir_all(format!("{root}/replays"));
        let path = format!("{root}/replays/C06-config-constructor-{bad}.json");
        let _ = std::fs::write(&path, json!({"property":"C06","scenario":"config-constructors","cluster_size":bad}).to_string());
        lines.push(format!("VIOLATION property=C06 replay={path}"));
    }
    json!({
        "config_constructors": {"cluster_sizes_tried": total, "exhaustive": exhaustive, "panics": p,
            "distinct_(max_tx,suspect_to_down)_outcomes": distinct_max_tx.lock().unwrap().len(),
            "note": "pure function of its input: decided by enumeration, reported separately from the simulated runs"},
        "violations": p, "lines": lines,
    })
}

fn extra(tier: Tier, seed: u64) -> Value {
    let v = constructors(tier, seed);
    // the same histories in the build without debug assertions / overflow checks
    crate::frame::release_twin("C06", tier, seed, v)
}

pub fn def() -> CheckDef {
    CheckDef {
        property: "C06",
        level: "exploration",
        rule: "seeded adversarial single-instance histories under catch_unwind: random bytes (0..2*max_packet_size), mutated valid datagrams (bit flips, truncation, junk, tampered counts/lengths), structurally valid datagrams with adversarial fields, every Timer variant genuine/crafted/stale/duplicated, every public method incl. set_config with any type-legal Config (max_packet_size 1..70000, fan-out 1..64, zero and huge durations) and add_broadcast around every limit; run in two build profiles; plus Config::new_lan/new_wan over NonZeroU32 (quick: boundaries + 1e7 samples, thorough: all 2^32-1). non-trivial = every run (each makes >= 20 calls); distinct = abstracted event log",
        assumptions: vec![
            "Vec::with_capacity of absurd sizes (alloc aborts) excluded: max_packet_size <= 70000, num_indirect_probes <= 64".into(),
            "the user-supplied Codec, Runtime, BroadcastHandler and Identity do not panic (the simulator's own implementations)".into(),
            "clusters beyond the 16-bit count fields (65000 / 66000 members, 1 MiB packets) are covered by the dedicated huge-cluster scenario only".into(),
        ],
        real_components: "one real Foca instance per run (all of src/), codecs: hand-written strict (clean/dirty), bincode, postcard",
        stub_components: "peers, network, clock, API caller are the simulator's generator",
        batches: vec![Batch { scenario: h06(), quick: 150_000, thorough: 6_000_000 }, Batch { scenario: crate::checks::histchecks::chaos_for("C06"), quick: 6_000, thorough: 150_000 }, Batch { scenario: &HugeCluster, quick: 0, thorough: 0 }, Batch { scenario: crate::checks::histchecks::exhaustive_for("C06"), quick: 0, thorough: 0 }],
        extra: Some(extra),
    }
}

// ---------------------------------------------------------------------------------------------
// Very large clusters: more members / pending updates than the 16-bit count field can express.
// Needs an address space wider than SimId's u16, hence its own tiny identity and harness.

use crate::frame::{Case, RunOut, Scenario, Violation};
use foca::{Header, Identity, Member, Message, PostcardCodec};

#[derive(Clone, Copy, Debug, PartialEq, Eq, serde::Serialize, serde::Deserialize)]
pub struct BigId(pub u32);
impl Identity for BigId {
    type Addr = u32;
    fn renew(&self) -> Option<Self> {
        None
    }
    fn addr(&self) -> u32 {
        self.0
    }
    fn win_addr_conflict(&self, _o: &Self) -> bool {
        false
    }
}

#[derive(Default)]
struct BigRt {
    sends: Vec<(BigId, Vec<u8>)>,
}
impl foca::Runtime<BigId> for BigRt {
    fn notify(&mut self, _n: foca::Notification<'_, BigId>) {}
    fn send_to(&mut self, to: BigId, data: &[u8]) {
        self.sends.push((to, data.to_vec()));
    }
    fn submit_after(&mut self, _e: foca::Timer<BigId>, _after: std::time::Duration) {}
}

/// header; count + exactly that many members; nothing else (no custom broadcasts in this harness)
fn big_parse(data: &[u8]) -> Result<usize, String> {
    use bytes::Buf;
    use foca::Codec;
    let mut cur: &[u8] = data;
    let mut c = PostcardCodec;
    let _h: Header<BigId> = c.decode_header(&mut cur).map_err(|e| format!("header: {e}"))?;
    if cur.is_empty() {
        return Ok(0);
    }
    if cur.len() < 2 {
        return Err("stray byte".into());
    }
    let n = cur.get_u16() as usize;
    for i in 0..n {
        let _m: Member<BigId> = c.decode_member(&mut cur).map_err(|e| format!("member {i} of {n}: {e}"))?;
    }
    if !cur.is_empty() {
        return Err(format!("count field says {n} members but {} bytes follow them", cur.len()));
    }
    Ok(n)
}

pub struct HugeCluster;
impl Scenario for HugeCluster {
    fn name(&self) -> &'static str {
        "huge-cluster"
    }
    fn gen(&self, seed: u64, _tier: Tier, i: u64) -> Case {
        // 0: just below the 16-bit limit, 1: above it
        let members = if i == 0 { 65_000u32 } else { 66_000 };
        Case { property: "C06".into(), scenario: self.name().into(), seed, params: json!({"members": members, "max_packet_size": 1u32 << 20}), steps: vec![], explicit: false }
    }
    fn run(&self, case: &Case) -> RunOut {
        let members = case.params["members"].as_u64().unwrap_or(66_000) as u32;
        let mps = case.params["max_packet_size"].as_u64().unwrap_or(1 << 20) as usize;
        let mut out = RunOut::default();
        let mut cfg = foca::Config::simple();
        cfg.max_packet_size = std::num::NonZeroUsize::new(mps).unwrap();
        cfg.max_transmissions = std::num::NonZeroU8::new(2).unwrap();
        let own = BigId(1);
        let mut foca = foca::Foca::new(own, cfg, crate::prng::SimRng::new(case.seed), PostcardCodec);
        let ups: Vec<Member<BigId>> = (0..members).map(|k| Member::alive(BigId(2 + k))).collect();
        let mut vs: Vec<Violation> = Vec::new();
        let mut step = |what: &str, f: &mut dyn FnMut(&mut BigRt) -> bool, vs: &mut Vec<Violation>| -> bool {
            let mut rt = BigRt::default();
            let r = std::panic::catch_unwind(std::panic::AssertUnwindSafe(|| f(&mut rt)));
            match r {
                Err(p) => {
                    let msg = p.downcast_ref::<String>().cloned().or_else(|| p.downcast_ref::<&str>().map(|s| s.to_string())).unwrap_or_default();
                    vs.push(Violation { property: "C06", tag: crate::script::panic_tag(&msg), detail: format!("{what} with {members} members and max_packet_size {mps}: {msg}"), at: 0 });
                    false
                }
                Ok(_) => {
                    for (_, data) in &rt.sends {
                        if let Err(e) = big_parse(data) {
                            vs.push(Violation { property: "C06", tag: "C06/count-overflow-malformed-datagram".into(), detail: format!("{what} with {members} members: emitted datagram of {} bytes is malformed: {e}", data.len()), at: 0 });
                        }
                    }
                    true
                }
            }
        };
        let ok = step("apply_many", &mut |rt| foca.apply_many(ups.iter().cloned(), true, rt).is_ok(), &mut vs);
        let ok = ok && step("gossip", &mut |rt| foca.gossip(rt).is_ok(), &mut vs);
        if ok {
            use foca::Codec;
            let h = Header { src: BigId(2), src_incarnation: 0, dst: own, message: Message::Announce };
            let mut d = Vec::new();
            PostcardCodec.encode_header(&h, &mut d).expect("encode");
            step("Feed reply to an Announce", &mut |rt| foca.handle_data(&d, rt).is_ok(), &mut vs);
        }
        out.nontrivial = true;
        out.signature = members as u64;
        out.log_hash = members as u64;
        out.violations = vs;
        out
    }
    fn steps_minimisable(&self) -> bool {
        false
    }
    fn exhaustive_len(&self, _tier: Tier) -> Option<u64> {
        Some(2)
    }
}
