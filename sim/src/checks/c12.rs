//! C12 — a probe succeeds only on genuine evidence; indirect probing is routed correctly.
//! (1) a real instance with scripted peers: who answers what, with which probe number, when;
//! (2) a cluster of real instances where one direct link is cut, so that every hop of the relay
//!     is real code.

use crate::codec::{msg_kind, parse_datagram, CodecKind};
use crate::frame::{Batch, Case, CheckDef, RunOut, Scenario, Tier, Violation};
use crate::handler::HandlerCfg;
use crate::id::{Policy, RenewMode, SimId};
use crate::node::{Input, Res, Setup};
use crate::prng::Stream;
use crate::script::{is_indirect, is_probe, ping_of, Driver};
use crate::world::{cluster_config, NetCfg, World, WorldCfg, MS};
use foca::{Config, Member, Message, OwnedNotification, State, Timer};
use std::num::NonZeroUsize;

#[derive(Clone, Debug, serde::Serialize, serde::Deserialize)]
pub struct P {
    pub members: usize,
    pub k: usize,
    pub rounds: usize,
    pub rng_seed: u64,
    pub notify_down: bool,
    /// max_packet_size (small values make Feeds truncate mid-round)
    #[serde(default)]
    pub mps: usize,
}

fn fail(vs: &mut Vec<Violation>, d: &Driver, tag: &str, detail: String) {
    vs.push(Violation { property: "C12", tag: tag.to_string(), detail, at: d.history.len() as u64 });
}

const OWN_ADDR: u16 = 1;

/// One scripted probe round. Returns false when the run should stop.
fn round(d: &mut Driver, s: &mut Stream, p: &P, vs: &mut Vec<Violation>, stats: &mut crate::frame::Stats, late: &mut Vec<(SimId, u8)>) -> bool {
    let codec = d.codec();
    if d.pending.iter().all(|(t, _, _)| !is_probe(t)) || !d.obs.connected() {
        return false;
    }
    // late answers of the previous round arrive after this round has started (below)
    let rec = match d.fire(is_probe) {
        Some(r) => r,
        None => return false,
    };
    if d.dead() {
        return false;
    }
    let Some((target, pn)) = ping_of(&rec, codec) else {
        fail(vs, d, "C12/no-ping", "an active instance started a round without a Ping".into());
        return false;
    };
    let t_inc = d.obs.slot(target.addr).map(|m| m.incarnation()).unwrap_or(0);
    let epoch_at_start = d.epochs;
    let mut evidence = false;
    let mut asked: Vec<SimId> = Vec::new();
    let mut aborted = false;
    stats.inc("c12_rounds");
    for (id, n) in late.drain(..) {
        // an answer to the previous round, arriving now: must not count for this one
        let inc = d.obs.slot(id.addr).map(|m| m.incarnation()).unwrap_or(0);
        d.deliver(id, inc, Message::Ack(n), &[]);
        stats.inc("c12_late_ack_of_previous_round");
        if id == target && n == pn {
            evidence = true;
        }
    }
    let events = |d: &mut Driver, s: &mut Stream, stats: &mut crate::frame::Stats, phase: u8, evidence: &mut bool, asked: &mut Vec<SimId>, aborted: &mut bool| {
        let n_ev = s.below(4);
        for _ in 0..n_ev {
            if d.dead() || *aborted {
                return;
            }
            let others: Vec<SimId> = d.obs.active.iter().map(|m| *m.id()).filter(|x| *x != target).collect();
            let num = match s.below(5) {
                0 => pn.wrapping_sub(1),
                1 => pn.wrapping_add(1),
                _ => pn,
            };
            match s.below(12) {
                0..=2 => {
                    // Ack from the target
                    let inc = d.obs.slot(target.addr).filter(|m| *m.id() == target).map(|m| m.incarnation()).unwrap_or(t_inc);
                    let was_active = d.obs.active.iter().any(|m| *m.id() == target);
                    let rec = d.deliver(target, inc, Message::Ack(num), &[]);
                    if num == pn && was_active && rec.result == Res::Ok {
                        *evidence = true;
                    }
                    stats.inc("c12_ack_from_target");
                }
                3 => {
                    // Ack from someone else (member or stranger): never evidence
                    let who = if others.is_empty() || s.chance(1, 3) { SimId::new(40 + s.below(3) as u16, 1) } else { *s.pick(&others) };
                    let inc = d.obs.slot(who.addr).map(|m| m.incarnation()).unwrap_or(0);
                    let was_active = d.obs.active.iter().any(|m| *m.id() == who);
                    let rec = d.deliver(who, inc, Message::Ack(num), &[]);
                    if who == target && num == pn && was_active && rec.result == Res::Ok {
                        // the "stranger" of an earlier round may have become a member and now be the target
                        *evidence = true;
                    }
                    stats.inc("c12_ack_from_non_target");
                }
                4..=6 => {
                    // ForwardedAck: from an asked helper, an unasked member or a stranger
                    let who = match s.below(4) {
                        0 | 1 if !asked.is_empty() => *s.pick(asked),
                        2 if !others.is_empty() => *s.pick(&others),
                        _ => SimId::new(40 + s.below(3) as u16, 1),
                    };
                    let origin = if s.chance(3, 4) { target } else { SimId::new(45, 1) };
                    let inc = d.obs.slot(who.addr).map(|m| m.incarnation()).unwrap_or(0);
                    let is_asked = asked.contains(&who);
                    let rec = d.deliver(who, inc, Message::ForwardedAck { origin, probe_number: num }, &[]);
                    if is_asked && num == pn && rec.result == Res::Ok {
                        *evidence = true;
                        asked.retain(|x| *x != who);
                        stats.inc("c12_forwarded_ack_from_asked_helper");
                    } else {
                        stats.inc("c12_forwarded_ack_not_evidence");
                    }
                }
                7 => {
                    // membership change during the round
                    match s.below(5) {
                        0 => {
                            d.step(Input::ApplyMany(vec![Member::new(target, t_inc, State::Down)], true));
                            stats.inc("c12_target_down_by_gossip");
                        }
                        1 => {
                            d.step(Input::ApplyMany(vec![Member::new(SimId::new(target.addr, target.gen + 1), 0, State::Alive)], true));
                            stats.inc("c12_target_renamed");
                        }
                        2 => {
                            d.step(Input::ApplyMany(vec![Member::new(target, t_inc.saturating_add(1), State::Alive)], true));
                            stats.inc("c12_target_higher_incarnation");
                        }
                        3 => {
                            d.step(Input::ApplyMany(vec![Member::new(target, t_inc, State::Suspect)], true));
                            stats.inc("c12_target_suspected_by_gossip");
                        }
                        _ => {
                            d.step(Input::ApplyMany(vec![Member::alive(SimId::new(20 + s.below(10) as u16, 1))], true));
                            stats.inc("c12_new_member_mid_round");
                        }
                    }
                }
                10 => {
                    // somebody asks to join mid-round: the Feed reply shares buffers with the probe machinery
                    let who = if others.is_empty() || s.chance(1, 2) { SimId::new(30 + s.below(6) as u16, 1) } else { *s.pick(&others) };
                    let inc = d.obs.slot(who.addr).map(|m| m.incarnation()).unwrap_or(0);
                    d.deliver(who, inc, Message::Announce, &[]);
                    stats.inc("c12_announce_mid_round");
                }
                8 if phase == 1 && s.chance(1, 3) => {
                    // abort: identity change (the instance reconnects on the next input)
                    let new = SimId::new(OWN_ADDR, d.id().gen + 1);
                    d.step(Input::ChangeIdentity(new));
                    d.step(Input::ApplyMany(vec![], true));
                    *aborted = true;
                    stats.inc("c12_abort_identity_change");
                }
                9 if phase == 1 && s.chance(1, 4) => {
                    // abort: everybody goes down, is forgotten and comes back
                    let all: Vec<Member<SimId>> = d.obs.state.iter().filter(|m| m.state() != State::Down).map(|m| Member::new(*m.id(), m.incarnation(), State::Down)).collect();
                    let ids: Vec<SimId> = d.obs.state.iter().map(|m| *m.id()).collect();
                    let back: Vec<Member<SimId>> = d.obs.state.iter().map(|m| Member::new(*m.id(), m.incarnation(), State::Alive)).collect();
                    d.step(Input::ApplyMany(all, true));
                    for id in ids {
                        d.step(Input::Timer(Timer::RemoveDown(id)));
                    }
                    d.step(Input::ApplyMany(back, true));
                    *aborted = true;
                    stats.inc("c12_abort_idle");
                }
                _ => {
                    // unrelated traffic
                    if let Some(who) = others.first() {
                        let inc = d.obs.slot(who.addr).map(|m| m.incarnation()).unwrap_or(0);
                        d.deliver(*who, inc, Message::Gossip, &[]);
                    }
                }
            }
        }
    };
    events(d, s, stats, 0, &mut evidence, &mut asked, &mut aborted);
    if d.dead() {
        return false;
    }
    // the indirect-probe timer of this round
    let ind = d.pending.iter().rev().find(|(t, _, _)| matches!(t, Timer::SendIndirectProbe { probed_id, .. } if *probed_id == target)).map(|(t, _, _)| t.clone());
    if let Some(t) = ind {
        let pre = d.obs.clone();
        let rec = d.step(Input::Timer(t));
        let reqs: Vec<(SimId, Message<SimId>)> = rec.sends().filter_map(|(to, data)| parse_datagram(codec, data).ok().map(|q| (*to, q.header.message))).collect();
        let stale = d.epochs != epoch_at_start || aborted;
        let target_active = pre.active.iter().any(|m| *m.id() == target);
        let should_ask = !evidence && target_active && !stale;
        let candidates: Vec<SimId> = pre.active.iter().map(|m| *m.id()).filter(|x| *x != target).collect();
        if !should_ask {
            if !reqs.is_empty() {
                fail(vs, d, "C12/indirect-probe-not-warranted", format!("PingReq sent although evidence={evidence} target_active={target_active} stale={stale}: {reqs:?}"));
            }
        } else {
            stats.inc("c12_indirect_stage_reached");
            let want = p.k.min(candidates.len());
            if reqs.len() != want {
                fail(vs, d, "C12/indirect-fanout", format!("{} PingReq sent, expected min(k={}, {} other active members)", reqs.len(), p.k, candidates.len()));
            }
            let mut seen = Vec::new();
            for (to, m) in &reqs {
                match m {
                    Message::PingReq { target: t, probe_number } => {
                        if *t != target || *probe_number != pn {
                            fail(vs, d, "C12/pingreq-fields", format!("PingReq names {t} #{probe_number}, the round probes {target} #{pn}"));
                        }
                    }
                    other => fail(vs, d, "C12/indirect-timer-sent-other-kind", format!("{}", msg_kind(other))),
                }
                if *to == target || to.addr == d.id().addr || !candidates.contains(to) || seen.contains(to) {
                    fail(vs, d, "C12/pingreq-destination", format!("PingReq sent to {to} (target {target}, candidates {candidates:?}, already asked {seen:?})"));
                }
                seen.push(*to);
            }
            asked = seen;
        }
    }
    events(d, s, stats, 1, &mut evidence, &mut asked, &mut aborted);
    if d.dead() || !vs.is_empty() {
        return false;
    }
    // sometimes the answer comes too late: after the next round has started
    if !evidence && s.chance(1, 6) {
        late.push((target, pn));
    }
    // verdict at the start of the next round
    let stale = d.epochs != epoch_at_start || aborted;
    if stale {
        // the round was aborted: nothing may be held against the target; the new epoch has its own timer
        stats.inc("c12_rounds_aborted");
        let slot_before = d.obs.slot(target.addr).cloned();
        let _ = slot_before;
        return d.obs.connected();
    }
    let pre = d.obs.clone();
    let Some(next_probe) = d.find_timer(is_probe) else { return false };
    // peek: run the next round's probe timer; it will also start the next round, which the caller continues
    // (we re-insert nothing: the caller's next `round` call fires the *following* timer)
    let rec = d.step(Input::Timer(next_probe));
    let slot = pre.slot(target.addr);
    let still = slot.is_some_and(|m| *m.id() == target && m.state() != State::Down && m.incarnation() == t_inc);
    let expect_suspect = !evidence && still;
    let timeouts: Vec<_> = rec.scheds().filter(|(t, _)| matches!(t, Timer::ChangeSuspectToDown { .. })).collect();
    if expect_suspect {
        stats.inc("c12_rounds_ending_in_suspicion");
        match d.obs.slot(target.addr) {
            Some(m) if *m.id() == target && m.state() == State::Suspect && m.incarnation() == t_inc => {}
            other => fail(vs, d, "C12/no-suspicion-without-evidence", format!("round #{pn} on {target}: no Ack/ForwardedAck evidence, yet the record is {other:?}")),
        }
        let ok = timeouts.len() == 1 && matches!(timeouts[0].0, Timer::ChangeSuspectToDown { member_id, incarnation, .. } if *member_id == target && *incarnation == t_inc);
        if !ok {
            fail(vs, d, "C12/suspicion-timeout-count", format!("round #{pn} on {target}: {} suspicion timeout(s) scheduled: {:?}", timeouts.len(), timeouts));
        }
    } else {
        stats.inc("c12_rounds_ending_without_suspicion");
        if evidence {
            stats.inc("c12_rounds_with_evidence");
        }
        let before = pre.slot(target.addr).cloned();
        let after = d.obs.slot(target.addr).cloned();
        if before != after {
            fail(vs, d, "C12/suspicion-despite-evidence-or-change", format!("round #{pn} on {target}: evidence={evidence}, record before {before:?}, after {after:?}"));
        }
        if !timeouts.is_empty() {
            stats.inc("c12_spurious_timeout_timer_for_stale_record");
        }
    }
    // the timer we just fired started a new round; answer it at once so that the caller starts clean
    if let Some((t2, n2)) = ping_of(&rec, codec) {
        let inc = d.obs.slot(t2.addr).map(|m| m.incarnation()).unwrap_or(0);
        d.deliver(t2, inc, Message::Ack(n2), &[]);
        d.fire(is_indirect);
    }
    d.obs.connected()
}

pub fn run_params(p: &P, seed: u64) -> RunOut {
    let mut out = RunOut::default();
    let mut cfg = Config::simple();
    cfg.num_indirect_probes = NonZeroUsize::new(p.k).unwrap();
    cfg.notify_down_members = p.notify_down;
    cfg.remove_down_after = std::time::Duration::from_secs(100_000);
    if p.mps >= 24 {
        cfg.max_packet_size = NonZeroUsize::new(p.mps).unwrap();
    }
    let own = SimId::new(OWN_ADDR, 1);
    let mut d = Driver::new(Setup { id: own, cfg, codec: CodecKind::Wire, policy: Policy { renew: RenewMode::Never, mask: 0, var_ids: false }, hcfg: HandlerCfg::default_cfg(), rng_seed: p.rng_seed, acc_twin: false });
    let members: Vec<Member<SimId>> = (0..p.members).map(|i| Member::alive(SimId::new(2 + i as u16, 1))).collect();
    d.step(Input::ApplyMany(members, true));
    let mut s = Stream::new(seed, "c12-script");
    let mut vs = Vec::new();
    let mut stats = crate::frame::Stats::default();
    let mut late = Vec::new();
    for _ in 0..p.rounds {
        if !round(&mut d, &mut s, p, &mut vs, &mut stats, &mut late) || !vs.is_empty() {
            break;
        }
    }
    out.nontrivial = stats.sums.get("c12_rounds").copied().unwrap_or(0) > 0;
    out.evaluations = stats.sums.get("c12_rounds").copied().unwrap_or(0).max(1);
    out.signature = d.sig.0;
    out.log_hash = d.log.0;
    out.stats = stats;
    out.stats.merge(&d.stats);
    vs.extend(d.violations.clone());
    out.violations = vs;
    out
}

pub struct Rounds;
impl Scenario for Rounds {
    fn name(&self) -> &'static str {
        "scripted-probe-rounds"
    }
    fn gen(&self, seed: u64, tier: Tier, _i: u64) -> Case {
        let mut s = Stream::new(seed, "c12-params");
        let p = P { members: s.range(1, 6) as usize, k: s.range(1, 3) as usize, rounds: match tier { Tier::Quick => s.range(2, 10), Tier::Thorough => s.range(2, 30) } as usize, rng_seed: s.next(), notify_down: s.chance(1, 2), mps: *s.pick(&[1400usize, 1400, 30, 36, 45, 60, 90]) };
        Case { property: "C12".into(), scenario: self.name().into(), seed, params: serde_json::to_value(p).unwrap(), steps: vec![], explicit: false }
    }
    fn run(&self, case: &Case) -> RunOut {
        let p: P = serde_json::from_value(case.params.clone()).expect("C12 params");
        run_params(&p, case.seed)
    }
    fn steps_minimisable(&self) -> bool {
        false
    }
    fn shrink(&self, case: &Case) -> Vec<Case> {
        let p: P = serde_json::from_value(case.params.clone()).unwrap();
        let mut v = Vec::new();
        if p.rounds > 1 {
            v.push(Case { params: serde_json::to_value(P { rounds: p.rounds - 1, ..p.clone() }).unwrap(), ..case.clone() });
        }
        v
    }
}

// ---------------------------------------------------------------------------------------------

#[derive(Clone, Debug, serde::Serialize, serde::Deserialize)]
pub struct ChainP {
    pub wc: WorldCfg,
    /// datagrams from node `cut.0` to node `cut.1` are lost (one direction)
    pub cut: (u16, u16),
    pub periods: u64,
}

/// Real code on every hop: the direct link A -> B is cut; the indirect route must absorb it.
pub struct Chain;
impl Scenario for Chain {
    fn name(&self) -> &'static str {
        "relay-chain"
    }
    fn gen(&self, seed: u64, tier: Tier, _i: u64) -> Case {
        let mut s = Stream::new(seed, "c12-chain");
        let n = s.range(3, match tier { Tier::Quick => 5, Tier::Thorough => 8 }) as usize;
        let rtt = s.range(40, 300);
        let lmax = s.range(1, rtt / 5);
        let period = rtt + 4 * lmax + 1 + s.range(0, 3 * rtt);
        let cfg = cluster_config(period, rtt, 3 * period, s.range(1, 3) as usize, s.range(1, 5) as u8, 1400);
        let wc = WorldCfg { n, cfg, codec: *s.pick(&[CodecKind::Wire, CodecKind::Postcard]), policy: Policy::never(), hcfg: HandlerCfg::default_cfg(), net: NetCfg::clean(s.range(0, lmax) * MS, lmax * MS), gen0: 1 };
        let a = s.range(1, n as u64) as u16;
        let mut b = s.range(1, n as u64) as u16;
        if b == a {
            b = a % n as u16 + 1;
        }
        let p = ChainP { wc, cut: (a, b), periods: 4 * n as u64 + 4 };
        Case { property: "C12".into(), scenario: self.name().into(), seed, params: serde_json::to_value(p).unwrap(), steps: vec![], explicit: false }
    }
    fn run(&self, case: &Case) -> RunOut {
        let p: ChainP = serde_json::from_value(case.params.clone()).expect("C12 chain params");
        let mut out = RunOut::default();
        let mut w = World::new(p.wc.clone(), case.seed);
        let n = p.wc.n;
        for a in 1..=n as u16 {
            w.spawn(a, 1);
        }
        w.bootstrap_full();
        w.blocked[World::idx(p.cut.0)][World::idx(p.cut.1)] = true;
        let period = p.wc.cfg.probe_period.as_nanos() as u64;
        let mut vs: Vec<Violation> = Vec::new();
        let mut notes_seen = 0;
        while let Some(t) = w.peek_time() {
            if t > p.periods * period {
                break;
            }
            match w.step() {
                Ok(None) | Err(_) => break,
                Ok(Some(_)) => {}
            }
            while notes_seen < w.notes.len() {
                let (t, a, note) = &w.notes[notes_seen];
                notes_seen += 1;
                if matches!(note, OwnedNotification::MemberDown(_) | OwnedNotification::Idle | OwnedNotification::Defunct) {
                    vs.push(Violation { property: "C12", tag: "C12/indirect-route-did-not-absorb-a-cut-link".into(), detail: format!("node {a} notified {note:?} at t={}ms although only the direct link {}->{} is cut", t / MS, p.cut.0, p.cut.1), at: *t });
                }
            }
            for a in 1..=n as u16 {
                if let Some(m) = w.proc(a).unwrap().obs.state.iter().find(|m| m.state() != State::Alive) {
                    vs.push(Violation { property: "C12", tag: "C12/indirect-route-did-not-absorb-a-cut-link".into(), detail: format!("node {a} holds {m:?} at t={}ms although only the direct link {}->{} is cut", w.now / MS, p.cut.0, p.cut.1), at: w.now });
                }
            }
            if !vs.is_empty() {
                break;
            }
        }
        let g = |k: &str| w.stats.sums.get(k).copied().unwrap_or(0);
        out.nontrivial = g("sent_ForwardedAck") > 0;
        out.signature = w.sig.0;
        out.log_hash = w.log.0;
        out.sim_ns = w.now;
        out.stats.merge(&w.stats);
        out.stats.add("events", w.events);
        vs.extend(w.violations.clone());
        out.violations = vs;
        out
    }
    fn steps_minimisable(&self) -> bool {
        false
    }
}

pub fn def() -> CheckDef {
    CheckDef {
        property: "C12",
        level: "exploration",
        rule: "(1) seeded scripted probe rounds on a real instance with 1..6 members and fan-out 1..3: per round 0..3 events before and after the indirect-probe timer drawn from {Ack from the target / another member / a stranger, ForwardedAck from an asked helper / unasked member / stranger, each with the current, previous or next probe number and with the right or a wrong origin; target declared Down, renamed, learnt at a higher incarnation or suspected by gossip; a member joining; identity change; everybody down, forgotten and back}, late Acks delivered after the next round started; oracle at the indirect timer (PingReq only if warranted, to min(k, others) distinct active members, never the target) and at the next probe timer (suspicion + exactly one timeout iff no genuine evidence, no abort, target unchanged); (3) the reply/relay monitor (every incoming Ping, PingReq, IndirectPing, IndirectAck must produce exactly the reply or relay the protocol prescribes, with origin, target and probe number preserved; requests naming the instance itself must be rejected and not relayed) on the shared seeded adversarial histories, the chaos pool and the exhaustive depth-3/4 histories; (2) seeded clusters of 3..8 real instances with one directed link cut for 4n+4 probe periods: the relay must absorb it, with the relay monitor (reply/relay preserves origin, target, probe number; requests naming the receiver are rejected) on every call of every node (that monitor also runs in every other scenario); evaluations = probe rounds / runs; non-trivial = a round was scripted / a ForwardedAck was sent; distinct = abstracted event log",
        assumptions: vec![
            "scenario (1): peers are stubs scripted by the simulator (stated as such); scenario (2): every hop is a real instance".into(),
            "genuine evidence = Ack from the probed identity with the current number, or ForwardedAck with the current number from a member asked in this round (the origin field is not part of the definition, as in the statement)".into(),
        ],
        real_components: "(1) one real Foca instance; (2) 3..8 real instances on the simulated network",
        stub_components: "(1) all peers; (2) network and clock",
        batches: vec![
            Batch { scenario: &Rounds, quick: 80_000, thorough: 3_000_000 },
            Batch { scenario: &Chain, quick: 3_000, thorough: 100_000 },
            // the reply/relay clauses (Ping -> Ack of the same number, PingReq -> IndirectPing -> IndirectAck ->
            // ForwardedAck preserving origin, target and number, requests naming the instance itself rejected)
            // are also monitored on every call of the shared history, chaos-pool and exhaustive batches
            Batch { scenario: &crate::checks::histchecks::H12, quick: 40_000, thorough: 3_000_000 },
            Batch { scenario: crate::checks::histchecks::chaos_for("C12"), quick: 6_000, thorough: 150_000 },
            Batch { scenario: crate::checks::histchecks::exhaustive_for("C12"), quick: 0, thorough: 0 },
        ],
        extra: None,
    }
}
