//! C14 — round-robin probing: every active member is probed within 2n-1 rounds.

use crate::codec::CodecKind;
use crate::frame::{Batch, Case, CheckDef, RunOut, Scenario, Tier, Violation};
use crate::handler::HandlerCfg;
use crate::id::{Policy, SimId};
use crate::node::{Input, Setup};
use crate::prng::Stream;
use crate::script::{is_indirect, is_probe, ping_of, Driver};
use foca::{Config, Member, Message, State, Timer};
use std::collections::BTreeMap;

#[derive(Clone, Debug, serde::Serialize, serde::Deserialize)]
pub struct P {
    /// active members in the stable phase
    pub n: usize,
    /// Down records present in the stable phase
    pub downs: usize,
    /// churn before the stable phase: rounds probed, members that joined late, Down records forgotten
    pub warmup_rounds: usize,
    pub late_joiners: usize,
    pub forgotten: usize,
    pub rng_seed: u64,
    pub rounds_factor: usize,
}

pub fn gen_params(seed: u64, tier: Tier) -> P {
    let mut s = Stream::new(seed, "c14-params");
    let nmax = match tier {
        Tier::Quick => 24,
        Tier::Thorough => 40,
    };
    let n = if s.chance(1, 3) { s.range(1, 5) } else { s.range(1, nmax) } as usize;
    P {
        n,
        downs: s.range(0, n as u64) as usize,
        warmup_rounds: s.range(0, 3 * n as u64) as usize,
        late_joiners: s.range(0, (n as u64).min(6)) as usize,
        forgotten: s.range(0, 4) as usize,
        rng_seed: s.next(),
        rounds_factor: 6,
    }
}

/// One probe round with a peer that answers at once. Returns the pinged identity.
fn round(d: &mut Driver, vs: &mut Vec<Violation>) -> Option<SimId> {
    let codec = d.codec();
    let rec = d.fire(is_probe)?;
    let pings: Vec<_> = rec.sends().filter(|(_, data)| crate::codec::parse_datagram(codec, data).is_ok_and(|p| matches!(p.header.message, Message::Ping(_)))).collect();
    if pings.len() != 1 {
        vs.push(Violation { property: "C14", tag: "C14/not-exactly-one-ping".into(), detail: format!("a probe round sent {} Pings", pings.len()), at: d.history.len() as u64 });
        return None;
    }
    let (dst, n) = ping_of(&rec, codec)?;
    let inc = d.obs.slot(dst.addr).map(|m| m.incarnation()).unwrap_or(0);
    d.deliver(dst, inc, Message::Ack(n), &[]);
    d.fire(is_indirect);
    Some(dst)
}

pub fn run_params(p: &P, seed: u64) -> RunOut {
    let mut out = RunOut::default();
    let own = SimId::new(1, 1);
    let mut cfg = Config::simple();
    cfg.remove_down_after = std::time::Duration::from_secs(1_000_000);
    let mut d = Driver::new(Setup { id: own, cfg, codec: CodecKind::Wire, policy: Policy::never(), hcfg: HandlerCfg::default_cfg(), rng_seed: p.rng_seed, acc_twin: false });
    let mut s = Stream::new(seed, "c14-layout");
    let mut vs = Vec::new();
    let mut next_addr = 2u16;
    let mut fresh = |next_addr: &mut u16| {
        let id = SimId::new(*next_addr, 1);
        *next_addr += 1;
        id
    };
    // initial members: n - late_joiners active, downs + forgotten Down, in a random order, in batches
    let early = p.n - p.late_joiners.min(p.n.saturating_sub(1));
    let mut initial: Vec<Member<SimId>> = (0..early).map(|_| Member::alive(fresh(&mut next_addr))).collect();
    let mut down_ids = Vec::new();
    for _ in 0..(p.downs + p.forgotten) {
        let id = fresh(&mut next_addr);
        down_ids.push(id);
        initial.push(Member::new(id, 0, State::Down));
    }
    s.shuffle(&mut initial);
    let mut i = 0;
    while i < initial.len() {
        let k = s.range(1, 5).min((initial.len() - i) as u64) as usize;
        d.step(Input::ApplyMany(initial[i..i + k].to_vec(), s.chance(1, 2)));
        i += k;
    }
    // warm-up: probe for a while, let members join in between, forget some Down records
    let mut joiners_left = p.n - early;
    let mut forget_left = p.forgotten;
    for _ in 0..p.warmup_rounds {
        if d.dead() || d.obs.active.is_empty() {
            break;
        }
        round(&mut d, &mut vs);
        if joiners_left > 0 && s.chance(1, 2) {
            d.step(Input::ApplyMany(vec![Member::alive(fresh(&mut next_addr))], true));
            joiners_left -= 1;
        }
        if forget_left > 0 && s.chance(1, 2) {
            let id = down_ids.pop().unwrap();
            d.step(Input::Timer(Timer::RemoveDown(id)));
            forget_left -= 1;
        }
    }
    while joiners_left > 0 {
        d.step(Input::ApplyMany(vec![Member::alive(fresh(&mut next_addr))], true));
        joiners_left -= 1;
    }
    while forget_left > 0 {
        let id = down_ids.pop().unwrap();
        d.step(Input::Timer(Timer::RemoveDown(id)));
        forget_left -= 1;
    }
    // stable phase
    let active: Vec<SimId> = d.obs.active.iter().map(|m| *m.id()).collect();
    let n = active.len();
    if n != p.n || d.obs.state.len() != p.n + p.downs {
        vs.push(Violation { property: "C14", tag: "HARNESS/layout".into(), detail: format!("expected {} active + {} down, got {} + {}", p.n, p.downs, n, d.obs.state.len() - n), at: 0 });
    }
    let rounds = p.rounds_factor * n + 4;
    let mut seq: Vec<SimId> = Vec::with_capacity(rounds);
    for _ in 0..rounds {
        if d.dead() {
            break;
        }
        match round(&mut d, &mut vs) {
            Some(dst) => {
                if !active.contains(&dst) {
                    vs.push(Violation { property: "C14", tag: "C14/pinged-inactive-member".into(), detail: format!("round {} pinged {dst}, which is not an active member", seq.len()), at: seq.len() as u64 });
                }
                if dst.addr == own.addr {
                    vs.push(Violation { property: "C14", tag: "C14/pinged-itself".into(), detail: format!("round {} pinged {dst}", seq.len()), at: seq.len() as u64 });
                }
                seq.push(dst);
            }
            None => {
                if vs.is_empty() {
                    vs.push(Violation { property: "C14", tag: "C14/no-ping-in-round".into(), detail: format!("round {} of the stable phase sent no Ping ({} active members)", seq.len(), n), at: seq.len() as u64 });
                }
                break;
            }
        }
    }
    // the member set must indeed have been stable
    let now_active: Vec<SimId> = d.obs.active.iter().map(|m| *m.id()).collect();
    if now_active != active && vs.is_empty() {
        vs.push(Violation { property: "C14", tag: "HARNESS/member-set-changed".into(), detail: "member set changed during the stable phase".into(), at: 0 });
    }
    if vs.is_empty() && n > 0 {
        let w = 2 * n - 1;
        let mut last: BTreeMap<SimId, usize> = BTreeMap::new();
        let mut worst = 0usize;
        for m in &active {
            // gaps: start -> first, between occurrences, last -> end
            let occ: Vec<usize> = seq.iter().enumerate().filter(|(_, x)| *x == m).map(|(i, _)| i).collect();
            let mut prev: isize = -1;
            for o in occ.iter().map(|x| *x as isize).chain(std::iter::once(seq.len() as isize)) {
                let without = (o - prev - 1) as usize; // consecutive rounds that did not ping m
                worst = worst.max(without);
                if without >= w {
                    vs.push(Violation { property: "C14", tag: "C14/member-starved".into(), detail: format!("{m} was not pinged in {} consecutive rounds (rounds {}..{}), n = {n} active, {} Down records, window 2n-1 = {w}", without, prev + 1, o, p.downs), at: o as u64 });
                    break;
                }
                prev = o;
            }
            last.insert(*m, occ.len());
            if !vs.is_empty() {
                break;
            }
        }
        out.stats.max("c14_worst_gap_permille_of_window", (worst * 1000 / w.max(1)) as u64);
        if worst + 1 == w {
            out.stats.inc("c14_runs_reaching_the_tight_bound");
        }
    }
    out.evaluations = seq.len().max(1) as u64;
    out.nontrivial = n >= 1;
    out.stats.add("c14_rounds", seq.len() as u64);
    out.signature = crate::prng::mix2(d.sig.0, (n as u64) << 16 | p.downs as u64);
    out.log_hash = d.log.0;
    out.stats.merge(&d.stats);
    vs.extend(d.violations.clone());
    out.violations = vs;
    out
}

pub struct RoundRobin;
impl Scenario for RoundRobin {
    fn name(&self) -> &'static str {
        "round-robin-windows"
    }
    fn gen(&self, seed: u64, tier: Tier, _i: u64) -> Case {
        Case { property: "C14".into(), scenario: self.name().into(), seed, params: serde_json::to_value(gen_params(seed, tier)).unwrap(), steps: vec![], explicit: false }
    }
    fn run(&self, case: &Case) -> RunOut {
        let p: P = serde_json::from_value(case.params.clone()).expect("C14 params");
        run_params(&p, case.seed)
    }
    fn steps_minimisable(&self) -> bool {
        false
    }
    fn shrink(&self, case: &Case) -> Vec<Case> {
        let p: P = serde_json::from_value(case.params.clone()).unwrap();
        let mut v = Vec::new();
        let mut push = |q: P| v.push(Case { params: serde_json::to_value(q).unwrap(), ..case.clone() });
        if p.n > 1 {
            push(P { n: p.n - 1, downs: p.downs.min(p.n - 1), late_joiners: p.late_joiners.min(p.n - 1), ..p.clone() });
        }
        if p.downs > 0 {
            push(P { downs: p.downs - 1, ..p.clone() });
        }
        if p.warmup_rounds > 0 {
            push(P { warmup_rounds: 0, ..p.clone() });
        }
        if p.late_joiners > 0 {
            push(P { late_joiners: 0, ..p.clone() });
        }
        if p.forgotten > 0 {
            push(P { forgotten: 0, ..p.clone() });
        }
        v
    }
}

pub fn def() -> CheckDef {
    CheckDef {
        property: "C14",
        level: "exploration",
        rule: "seeded layouts: n in 1..=N (quick 24, thorough 40) active members and 0..n Down records inserted in random order and batch sizes (insertion positions by the instance's own RNG seed), cursor moved by 0..3n warm-up rounds with late joiners and forgotten Down records; then >= 6n probe rounds with peers that Ack at once; every window of 2n-1 consecutive rounds must ping every active member; evaluations = probe rounds of the stable phase; non-trivial = n >= 1; distinct = (abstracted event log, n, number of Down records)",
        assumptions: vec!["the member set is stable during the measured phase (checked)".into(), "peers are scripted: each Ping is answered at once with the matching Ack".into()],
        real_components: "one real Foca instance (Members::next / shuffle, the whole probe cycle)",
        stub_components: "peers (immediate Ack), timers fired by the script",
        batches: vec![
            Batch { scenario: &RoundRobin, quick: 25_000, thorough: 2_000_000 },
            // the same clauses as a monitor on every probe round of the shared histories (windows restart
            // whenever the set of known members changes), of the chaos pool and of the exhaustive short histories
            Batch { scenario: &crate::checks::histchecks::H14, quick: 40_000, thorough: 3_000_000 },
            Batch { scenario: crate::checks::histchecks::chaos_for("C14"), quick: 6_000, thorough: 150_000 },
            Batch { scenario: crate::checks::histchecks::exhaustive_for("C14"), quick: 0, thorough: 0 },
        ],
        extra: None,
    }
}
