//! C03 — completeness: crashed or departed members are reported Down everywhere, within a bound.

use crate::codec::{parse_datagram, CodecKind};
use crate::frame::{Batch, Case, CheckDef, RunOut, Scenario, Tier, Violation};
use crate::handler::HandlerCfg;
use crate::id::{Policy, RenewMode, SimId};
use crate::node::Input;
use crate::prng::Stream;
use crate::world::{cluster_config, NetCfg, World, WorldCfg, MS};
use foca::{Member, Message, OwnedNotification, PeriodicParams, State};
use std::collections::BTreeMap;
use std::num::NonZeroUsize;
use std::time::Duration;

#[derive(Clone, Debug, serde::Serialize, serde::Deserialize)]
pub struct P {
    pub wc: WorldCfg,
    pub start_ns: Vec<u64>,
    /// failures happen right after this many processed events (counted from the start of the run)
    pub fail_after_events: u64,
    /// (node, kind): "crash", "leave-exit" (L1), "leave-stay" (L2)
    pub failures: Vec<(u16, String)>,
}

pub fn gen_params(seed: u64, tier: Tier) -> P {
    let mut s = Stream::new(seed, "c03-params");
    let nmax = match tier {
        Tier::Quick => 8,
        Tier::Thorough => 16,
    };
    let n = s.range(2, nmax) as usize;
    let rtt = s.range(20, 400);
    let lmax = s.range(1, (rtt - 1) / 4);
    let lmin = s.range(0, lmax);
    let period = (rtt * s.range(105, 500)) / 100 + 1;
    let suspect = s.range(period / 2 + 1, 4 * period);
    let k = s.range(1, 4) as usize;
    let mut cfg = cluster_config(period, rtt, suspect, k, s.range(1, 10) as u8, *s.pick(&[1400usize, 1400, 400, 200]));
    cfg.notify_down_members = s.chance(1, 2);
    if s.chance(1, 2) {
        cfg.periodic_gossip = Some(PeriodicParams { frequency: Duration::from_millis(s.range(period / 5 + 1, 2 * period)), num_members: NonZeroUsize::new(s.range(1, 3) as usize).unwrap() });
    }
    if s.chance(1, 3) {
        cfg.periodic_announce = Some(PeriodicParams { frequency: Duration::from_millis(s.range(period, 4 * period)), num_members: NonZeroUsize::new(1).unwrap() });
    }
    let policy = Policy { renew: *s.pick(&[RenewMode::Never, RenewMode::Next]), mask: u64::MAX, var_ids: s.chance(1, 4) };
    // one run in three: a slow network - answers arrive after the indirect-probe timer (one-way latency up to
    // just under probe_period / 2), yet always before the next round, so nobody is suspected wrongly and the
    // bound is unaffected
    let (lmin, lmax) = if s.chance(1, 3) {
        let hi = ((period - 1) / 2).saturating_sub(2).max(lmax);
        let lo = s.range(lmin, hi);
        (lo, s.range(lo, hi))
    } else {
        (lmin, lmax)
    };
    let wc = WorldCfg { n, cfg, codec: *s.pick(&[CodecKind::Wire, CodecKind::Wire, CodecKind::Bincode, CodecKind::Postcard]), policy, hcfg: HandlerCfg::default_cfg(), net: NetCfg::clean(lmin * MS, lmax * MS), gen0: 1 };
    let start_ns: Vec<u64> = (0..n).map(|_| s.range(0, period) * MS).collect();
    // a non-empty proper subset fails
    let n_fail = s.range(1, (n - 1) as u64) as usize;
    let mut nodes: Vec<u16> = (1..=n as u16).collect();
    s.shuffle(&mut nodes);
    let kind_mode = s.below(4);
    let failures = nodes[..n_fail]
        .iter()
        .map(|a| {
            let kind = match kind_mode {
                0 => "crash",
                1 => "leave-exit",
                2 => "leave-stay",
                _ => *s.pick(&["crash", "leave-exit", "leave-stay"]),
            };
            (*a, kind.to_string())
        })
        .collect();
    // inside two full rotations after formation: ~ (3 events per probe round per node)
    let fail_after_events = n as u64 + s.range(0, 8 * (n as u64) * (n as u64) + 10);
    P { wc, start_ns, fail_after_events, failures }
}

pub fn execute(p: &P, seed: u64) -> RunOut {
    let mut out = RunOut::default();
    let mut w = World::new(p.wc.clone(), seed);
    let n = p.wc.n;
    for a in 1..=n as u16 {
        w.spawn(a, p.wc.gen0);
    }
    for (i, t) in p.start_ns.iter().enumerate() {
        w.schedule_op(*t, i);
    }
    let period = p.wc.cfg.probe_period.as_nanos() as u64;
    let suspect = p.wc.cfg.suspect_to_down_after.as_nanos() as u64;
    let bound = (2 * n as u64 + 1) * period + suspect;
    let failed_addrs: Vec<u16> = p.failures.iter().map(|f| f.0).collect();
    let mut vs: Vec<Violation> = Vec::new();
    let mut t_fail: Option<u64> = None;
    // (survivor, failed identity) pairs owed a MemberDown, and when they were paid
    let mut owed: BTreeMap<(u16, SimId), Option<u64>> = BTreeMap::new();
    let mut notes_seen = 0usize;
    let mut left_at: BTreeMap<u16, u64> = BTreeMap::new();
    let mut booted = 0usize;
    loop {
        let Some(t) = w.peek_time() else { break };
        if let Some(tf) = t_fail {
            if t > tf + bound + period {
                break;
            }
        } else if t > 2000 * period {
            break;
        }
        let step = w.step();
        match step {
            Err(op) => {
                let a = (op + 1) as u16;
                let others: Vec<Member<_>> = (1..=n as u16).filter(|b| *b != a).map(|b| Member::alive(w.id_of(b))).collect();
                w.call(a, Input::ApplyMany(others, false));
                booted += 1;
            }
            Ok(None) => break,
            Ok(Some(info)) => {
                // a member told by the leaver reports it down in the very call that handled the datagram
                if let Some(info) = info {
                    if let (Input::Data(d), false) = (&info.rec.input, failed_addrs.contains(&info.addr)) {
                        if let Ok(pd) = parse_datagram(w.wc.codec, d) {
                            if failed_addrs.contains(&pd.header.src.addr) && left_at.contains_key(&pd.header.src.addr) {
                                let tells_down = pd.members.as_ref().is_some_and(|ms| ms.iter().any(|(m, _)| *m.id() == pd.header.src && m.state() == State::Down));
                                if tells_down && matches!(pd.header.message, Message::Gossip) {
                                    out.stats.inc("c03_leave_gossip_received");
                                    if let Some(None) = owed.get(&(info.addr, pd.header.src)) {
                                        let notified = info.rec.notes().any(|x| matches!(x, OwnedNotification::MemberDown(y) if *y == pd.header.src));
                                        if !notified && info.rec.result.is_ok() {
                                            vs.push(Violation { property: "C03", tag: "C03/leave-not-reported-immediately".into(), detail: format!("node {} handled the leave gossip of {} without notifying MemberDown", info.addr, pd.header.src), at: w.now });
                                        }
                                    }
                                }
                            }
                        }
                    }
                    // a departed member that is still driven stops answering probes
                    if let Some(tl) = left_at.get(&info.addr) {
                        if w.now > *tl {
                            for (_, data) in info.rec.sends() {
                                if let Ok(pd) = parse_datagram(w.wc.codec, data) {
                                    if matches!(pd.header.message, Message::Ack(_) | Message::IndirectAck { .. } | Message::Feed | Message::IndirectPing { .. } | Message::ForwardedAck { .. } | Message::Ping(_) | Message::PingReq { .. }) {
                                        vs.push(Violation { property: "C03", tag: "C03/leaver-still-answers".into(), detail: format!("node {} left at t={}ms but sent {} at t={}ms", info.addr, tl / MS, crate::codec::msg_kind(&pd.header.message), w.now / MS), at: w.now });
                                    }
                                }
                            }
                        }
                    }
                }
            }
        }
        // inject the failures right after the e-th processed event
        if t_fail.is_none() && booted == n && w.events >= p.fail_after_events {
            t_fail = Some(w.now);
            for s in w.live_addrs() {
                if failed_addrs.contains(&s) {
                    continue;
                }
                for f in &failed_addrs {
                    let fid = w.id_of(*f);
                    if w.view(s).contains(&fid) {
                        owed.insert((s, fid), None);
                    }
                }
            }
            for (a, kind) in &p.failures {
                match kind.as_str() {
                    "crash" => {
                        w.crash(*a);
                        out.stats.inc("c03_crash");
                    }
                    "leave-exit" => {
                        w.call(*a, Input::Leave);
                        left_at.insert(*a, w.now);
                        // the process exits right after handing its datagrams to the network
                        w.crash(*a);
                        out.stats.inc("c03_leave_exit");
                    }
                    _ => {
                        w.call(*a, Input::Leave);
                        left_at.insert(*a, w.now);
                        out.stats.inc("c03_leave_stay");
                    }
                }
            }
        }
        while notes_seen < w.notes.len() {
            let (t, a, note) = w.notes[notes_seen].clone();
            notes_seen += 1;
            let survivor = !failed_addrs.contains(&a);
            match &note {
                OwnedNotification::MemberDown(x) => {
                    if !failed_addrs.contains(&x.addr) {
                        vs.push(Violation { property: "C03", tag: "C03/survivor-declared-down".into(), detail: format!("node {a} notified MemberDown({x}) at t={}ms; node {} never failed", t / MS, x.addr), at: t });
                    } else if t_fail.is_none() {
                        vs.push(Violation { property: "C03", tag: "C03/down-before-failure".into(), detail: format!("node {a} notified MemberDown({x}) before any failure"), at: t });
                    } else if let Some(slot) = owed.get_mut(&(a, *x)) {
                        if slot.is_none() {
                            *slot = Some(t);
                        }
                    }
                }
                OwnedNotification::Defunct | OwnedNotification::Rejoin(_) if survivor => {
                    vs.push(Violation { property: "C03", tag: "C03/survivor-told-down".into(), detail: format!("surviving node {a} notified {note:?} at t={}ms", t / MS), at: t });
                }
                OwnedNotification::Rejoin(_) | OwnedNotification::Active if !survivor && left_at.get(&a).is_some_and(|tl| t > *tl) => {
                    vs.push(Violation { property: "C03", tag: "C03/leaver-came-back-by-itself".into(), detail: format!("node {a} left the cluster at t={}ms and notified {note:?} at t={}ms without any user call", left_at[&a] / MS, t / MS), at: t });
                }
                _ => {}
            }
        }
        if !vs.is_empty() {
            break;
        }
    }
    if vs.is_empty() {
        match t_fail {
            None => out.stats.inc("c03_discarded_failure_point_not_reached"),
            Some(tf) => {
                out.nontrivial = true;
                for ((s, f), paid) in &owed {
                    match paid {
                        Some(t) => {
                            let took = t - tf;
                            out.stats.max("c03_detection_permille_of_bound", took * 1000 / bound);
                            if took > bound {
                                vs.push(Violation { property: "C03", tag: "C03/detection-too-slow".into(), detail: format!("node {s} notified MemberDown({f}) {}ms after the failure, bound {}ms", took / MS, bound / MS), at: *t });
                            }
                        }
                        None => vs.push(Violation { property: "C03", tag: "C03/failure-never-reported".into(), detail: format!("node {s} listed {f} as active when it failed at t={}ms and never notified MemberDown within (2n+1) probe periods + suspect_to_down_after = {}ms", tf / MS, bound / MS), at: w.now }),
                    }
                }
                out.stats.add("c03_memberdown_owed", owed.len() as u64);
            }
        }
    }
    out.signature = w.sig.0;
    out.log_hash = w.log.0;
    out.sim_ns = w.now;
    out.stats.merge(&w.stats);
    out.stats.add("events", w.events);
    vs.extend(w.violations.clone());
    out.violations = vs;
    out
}

pub struct Failures;
impl Scenario for Failures {
    fn name(&self) -> &'static str {
        "failures-at-event-index"
    }
    fn gen(&self, seed: u64, tier: Tier, _i: u64) -> Case {
        Case { property: "C03".into(), scenario: self.name().into(), seed, params: serde_json::to_value(gen_params(seed, tier)).unwrap(), steps: vec![], explicit: false }
    }
    fn run(&self, case: &Case) -> RunOut {
        let p: P = serde_json::from_value(case.params.clone()).expect("C03 params");
        execute(&p, case.seed)
    }
    fn steps_minimisable(&self) -> bool {
        false
    }
    fn shrink(&self, case: &Case) -> Vec<Case> {
        let p: P = serde_json::from_value(case.params.clone()).unwrap();
        let mut v = Vec::new();
        let mut push = |q: P| v.push(Case { params: serde_json::to_value(q).unwrap(), ..case.clone() });
        if p.failures.len() > 1 {
            for i in 0..p.failures.len() {
                let mut q = p.clone();
                q.failures.remove(i);
                push(q);
            }
        }
        if p.wc.n > 2 && !p.failures.iter().any(|f| f.0 as usize == p.wc.n) {
            let mut q = p.clone();
            q.wc.n -= 1;
            q.start_ns.pop();
            push(q);
        }
        if p.wc.cfg.periodic_gossip.is_some() {
            let mut q = p.clone();
            q.wc.cfg.periodic_gossip = None;
            push(q);
        }
        if p.wc.cfg.periodic_announce.is_some() {
            let mut q = p.clone();
            q.wc.cfg.periodic_announce = None;
            push(q);
        }
        if p.fail_after_events > p.wc.n as u64 {
            let mut q = p.clone();
            q.fail_after_events = p.wc.n as u64 + (p.fail_after_events - p.wc.n as u64) / 2;
            push(q);
        }
        v
    }
}

/// Thorough: every failure point in a window of two rotations, small clusters.
pub struct Sweep;
impl Scenario for Sweep {
    fn name(&self) -> &'static str {
        "failure-point-sweep"
    }
    fn gen(&self, seed: u64, _tier: Tier, i: u64) -> Case {
        // the same base configuration for 400 consecutive indices, the failure point walks
        let base = crate::prng::mix2(seed ^ i / 400, 0xC03);
        let mut p = gen_params(base, Tier::Quick);
        let mut s = Stream::new(base, "c03-sweep");
        if p.wc.n > 5 {
            p.wc.n = s.range(2, 5) as usize;
            p.start_ns.truncate(p.wc.n);
            let n = p.wc.n;
            p.failures.retain(|f| (f.0 as usize) <= n);
            if p.failures.is_empty() || p.failures.len() == n {
                p.failures = vec![(1, "crash".to_string())];
            }
        }
        p.fail_after_events = p.wc.n as u64 + (i % 400);
        Case { property: "C03".into(), scenario: self.name().into(), seed: base, params: serde_json::to_value(p).unwrap(), steps: vec![], explicit: false }
    }
    fn run(&self, case: &Case) -> RunOut {
        Failures.run(case)
    }
    fn steps_minimisable(&self) -> bool {
        false
    }
    fn shrink(&self, case: &Case) -> Vec<Case> {
        Failures.shrink(case)
    }
}

pub fn def() -> CheckDef {
    CheckDef {
        property: "C03",
        level: "exploration",
        rule: "seeded formed clusters (n in 2..=N; quick 8, thorough 16) in which a non-empty proper subset fails right after the e-th processed event (so failures land inside probe cycles, between Ping and Ack, between PingReq and relay): crash, leave_cluster followed by process exit, leave_cluster with the instance still driven; thorough additionally sweeps every e in a 400-event window for clusters of <= 5; non-trivial = the failure point was reached; distinct = abstracted event log of the cluster",
        assumptions: vec![
            "premise as C02 before and after the failure: latency < probe_rtt/4, probe_rtt < probe_period, timers on time, no loss".into(),
            "bound: MemberDown at every survivor that listed the member within (2n+1) probe periods + suspect_to_down_after of the failure instant".into(),
        ],
        real_components: "n real Foca instances (all of src/), the run's codec; all monitors attached to every node",
        stub_components: "network (latency only), clock, crash/exit of processes are the simulator",
        batches: vec![Batch { scenario: &Failures, quick: 10_000, thorough: 300_000 }, Batch { scenario: &Sweep, quick: 2_000, thorough: 200_000 }],
        extra: None,
    }
}
