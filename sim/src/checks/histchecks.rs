//! Checks whose executions are adversarial single-instance histories with all monitors attached.
use crate::frame::{Batch, CheckDef, Tier};
use crate::chaos::Chaos;
use crate::exhaust::Exhaustive;

static E01: Exhaustive = Exhaustive { focus: "C01" };
static E06: Exhaustive = Exhaustive { focus: "C06" };
static E07: Exhaustive = Exhaustive { focus: "C07" };
static E08: Exhaustive = Exhaustive { focus: "C08" };
static E09: Exhaustive = Exhaustive { focus: "C09" };
static E10: Exhaustive = Exhaustive { focus: "C10" };
static E11: Exhaustive = Exhaustive { focus: "C11" };
static E12: Exhaustive = Exhaustive { focus: "C12" };
static E13: Exhaustive = Exhaustive { focus: "C13" };
static E14: Exhaustive = Exhaustive { focus: "C14" };
static E15: Exhaustive = Exhaustive { focus: "C15" };
static E16: Exhaustive = Exhaustive { focus: "C16" };
static E17: Exhaustive = Exhaustive { focus: "C17" };
static E19: Exhaustive = Exhaustive { focus: "C19" };

pub fn exhaustive_for(p: &str) -> &'static Exhaustive {
    match p {
        "C01" => &E01,
        "C06" => &E06,
        "C07" => &E07,
        "C08" => &E08,
        "C09" => &E09,
        "C10" => &E10,
        "C11" => &E11,
        "C12" => &E12,
        "C13" => &E13,
        "C14" => &E14,
        "C15" => &E15,
        "C16" => &E16,
        "C17" => &E17,
        _ => &E19,
    }
}
use crate::hist::Hist;

static X01: Chaos = Chaos { focus: "C01" };
static X06: Chaos = Chaos { focus: "C06" };
static X07: Chaos = Chaos { focus: "C07" };
static X08: Chaos = Chaos { focus: "C08" };
static X09: Chaos = Chaos { focus: "C09" };
static X10: Chaos = Chaos { focus: "C10" };
static X11: Chaos = Chaos { focus: "C11" };
static X12: Chaos = Chaos { focus: "C12" };
static X13: Chaos = Chaos { focus: "C13" };
static X14: Chaos = Chaos { focus: "C14" };
static X15: Chaos = Chaos { focus: "C15" };
static X16: Chaos = Chaos { focus: "C16" };
static X17: Chaos = Chaos { focus: "C17" };
static X19: Chaos = Chaos { focus: "C19" };

pub fn chaos_for(p: &str) -> &'static Chaos {
    match p {
        "C01" => &X01,
        "C06" => &X06,
        "C07" => &X07,
        "C08" => &X08,
        "C09" => &X09,
        "C10" => &X10,
        "C11" => &X11,
        "C12" => &X12,
        "C13" => &X13,
        "C14" => &X14,
        "C15" => &X15,
        "C16" => &X16,
        "C17" => &X17,
        _ => &X19,
    }
}

pub static H01: Hist = Hist { name: "adversarial-history", focus: "C01" };
static H06: Hist = Hist { name: "adversarial-history", focus: "C06" };
static H08: Hist = Hist { name: "adversarial-history", focus: "C08" };
static H09: Hist = Hist { name: "adversarial-history", focus: "C09" };
static H10: Hist = Hist { name: "adversarial-history", focus: "C10" };
pub static H11: Hist = Hist { name: "adversarial-history", focus: "C11" };
pub static H12: Hist = Hist { name: "adversarial-history", focus: "C12" };
static H13: Hist = Hist { name: "exact-timer-history", focus: "C13" };
pub static H14: Hist = Hist { name: "adversarial-history", focus: "C14" };
static H15: Hist = Hist { name: "adversarial-history", focus: "C15" };
static H16: Hist = Hist { name: "adversarial-history", focus: "C16" };
pub static H17: Hist = Hist { name: "adversarial-history", focus: "C17" };
static H19: Hist = Hist { name: "adversarial-history", focus: "C19" };

const REAL: &str = "one real Foca instance (all of src/), the run's codec (hand-written strict codec, clean or dirty-on-full, bincode, postcard), SimHandler";
const STUB: &str = "adversarial-history batch: every peer, the network, the clock and the API caller are the simulator's generator (single real instance); chaos-pool batch: 2..12 real instances, only network, clock, crashes and API calls are simulated";

fn hist_def(property: &'static str, h: &'static Hist, rule: &'static str, quick: u64, thorough: u64) -> CheckDef {
    CheckDef {
        property,
        level: "exploration",
        rule,
        assumptions: vec![
            "identity domain: 3..6 addresses x 4 generations, incarnations boundary-biased (0,1,MAX-1,MAX, known, known+1, uniform)".into(),
            "identities have a strict total conflict order per address (higher generation wins)".into(),
            "codec failures other than lack of space are not injected".into(),
            "exhaustive-short-histories batch: EVERY sequence of 3 (quick) / 4 (thorough) operations over a fixed alphabet of 40 (datagrams of every kind from two peers incl. self-suspicion, self-down, TurnUndead, renamed peer, relays, custom items; genuine and stale timers; leave, reuse, change_identity, gossip, broadcast, add_broadcast, announce, apply_many, set_config) x 8 setups (notify_down_members, renewable, tiny packets), starting from an instance with two members and a probe in flight".into(),
            "chaos-pool batch: each run enables a random subset of {latency beyond probe_rtt, loss <= 20%, duplication <= 10%, corruption <= 5%, partitions with heal, crash/restart with or without the saved membership snapshot, leave, stall, clock skew 0.5x..2x and lag, user identity change, custom broadcasts}".into(),
        ],
        real_components: REAL,
        stub_components: STUB,
        batches: vec![Batch { scenario: h, quick, thorough }, Batch { scenario: chaos_for(property), quick: 6_000, thorough: 150_000 }, Batch { scenario: exhaustive_for(property), quick: 0, thorough: 0 }],
        extra: if property == "C08" { Some(twin08) } else { None },
    }
}

/// C08 also runs in the release profile: `become_connected` carries a debug assertion ("at least one
/// active member") that fires before the notification the C08 oracle would object to.
fn twin08(tier: Tier, seed: u64) -> serde_json::Value {
    crate::frame::release_twin("C08", tier, seed, serde_json::Value::Null)
}

pub fn defs() -> Vec<CheckDef> {
    vec![
        hist_def("C08", &H08, "seeded adversarial histories (20..160 calls, some 200..600) of valid/mutated/random datagrams, genuine/crafted/duplicated timers and every API call; mirror of MemberUp/MemberDown/Rename vs iter_members, connection state machine and Defunct/Rejoin triggers checked after every call; non-trivial = the run sent datagrams and made >5 calls; distinct = abstracted event log (call kind, result, message kinds, notification kinds)", 150_000, 6_000_000),
        hist_def("C09", &H09, "same generator; table invariants (unique addresses, own address never active, size bound, identity only moves forward with Rename, removal only by the forget-timer, inactive senders' payload discarded) after every call; distinct = abstracted event log", 150_000, 6_000_000),
        hist_def("C10", &H10, "same generator, renew policies Never/Next/Same/Losing; incarnation ledger per tenure, told-incarnation bound on every outgoing update, rejoin/defunct reaction; non-trivial = the run contained an incarnation bump, a processed self-suspicion or a self-down trigger", 150_000, 6_000_000),
        hist_def("C13", &H13, "same generator without crafted/duplicated timers: every scheduled timer is delivered exactly once, in deadline order (arbitrarily late) or in arbitrary order; ledger of outstanding timers per epoch checked after every call; non-trivial = a stale timer was delivered or the ledger was checked while active", 150_000, 6_000_000),
        hist_def("C15", &H15, "same generator biased to update traffic; backlog model (insert on accepted update, greedy class-wise fill check of every piggybacking datagram, decrement, compare with updates_backlog and the hook snapshot) after every call; non-trivial = at least one non-empty update section was emitted", 150_000, 6_000_000),
        hist_def("C16", &H16, "same generator biased to add_broadcast/broadcast and item-carrying datagrams, random invalidation relation and recipient predicate; custom backlog model as C15 plus handler-call log; non-trivial = items were sent or received", 150_000, 6_000_000),
        hist_def("C19", &H19, "same generator (own-address generations in the identity domain, renewals, all periodic combinations); destination monitor on every emitted datagram; non-trivial = datagrams were emitted", 150_000, 6_000_000),
    ]
}

pub fn h06() -> &'static Hist {
    &H06
}
