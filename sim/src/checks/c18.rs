//! C18 — reply cascades terminate. 2-3 real instances in arbitrary mutual-knowledge states,
//! timers held (recorded, never fired), one initial datagram, seeded delivery order.

use crate::codec::{build_datagram, msg_kind, parse_datagram, CodecKind};
use crate::frame::{Batch, Case, CheckDef, RunOut, Scenario, Tier, Violation};
use crate::handler::HandlerCfg;
use crate::id::{Policy, RenewMode, SimId};
use crate::node::{Input, Setup};
use crate::prng::{LogHash, Stream};
use crate::script::Driver;
use foca::{Header, Member, Message, State};
use std::num::{NonZeroU8, NonZeroUsize};

#[derive(Clone, Debug, serde::Serialize, serde::Deserialize)]
pub struct P {
    pub n: usize,
    pub k: usize,
    pub max_tx: u8,
    pub notify_down: bool,
    pub policy: Policy,
    pub codec: CodecKind,
    /// knowledge[a][b]: what instance a is told about instance b before the exchange:
    /// 0 unknown, 1 alive, 2 suspect, 3 down, 4 older generation alive, 5 older generation down, 6 alive at a higher incarnation
    pub knowledge: Vec<Vec<u8>>,
    /// per instance: apply the knowledge with broadcasting (non-empty backlog) or without
    pub broadcast: Vec<bool>,
    /// per instance: 0 nothing, 1 leave_cluster (defunct), 2 told TurnUndead by a stranger
    pub self_state: Vec<u8>,
    /// initial datagram: sender, receiver, kind 0..=10, whether dst uses the sender's (possibly stale) idea of the receiver
    pub init: (usize, usize, u8, bool),
    pub init_updates: u8,
    pub budget: usize,
    /// per instance: how many suspicions about itself it has refuted before the exchange (own incarnation >= 1:
    /// a long-lived member; TurnUndead and other verdicts always carry incarnation 0)
    #[serde(default)]
    pub refuted: Vec<u8>,
}

const GEN: u32 = 5;

pub fn gen_params(seed: u64) -> P {
    let mut s = Stream::new(seed, "c18-params");
    let n = s.range(2, 3) as usize;
    let knowledge = (0..n).map(|a| (0..n).map(|b| if a == b { 0 } else { *s.pick(&[0u8, 1, 1, 2, 3, 3, 4, 5, 6]) }).collect()).collect();
    let a = s.below(n as u64) as usize;
    let mut b = s.below(n as u64) as usize;
    if b == a {
        b = (a + 1) % n;
    }
    P {
        n,
        k: s.range(1, 3) as usize,
        max_tx: *s.pick(&[1u8, 2, 3, 5]),
        notify_down: s.chance(2, 3),
        policy: Policy { renew: *s.pick(&[RenewMode::Never, RenewMode::Never, RenewMode::Next, RenewMode::Next, RenewMode::Same, RenewMode::Losing]), mask: if s.chance(2, 3) { u64::MAX } else { s.next() }, var_ids: false },
        codec: CodecKind::Wire,
        knowledge,
        broadcast: (0..n).map(|_| s.chance(1, 2)).collect(),
        self_state: (0..n).map(|_| *s.pick(&[0u8, 0, 0, 1, 2])).collect(),
        init: (a, b, s.below(11) as u8, s.chance(1, 3)),
        init_updates: s.below(4) as u8,
        budget: 400,
        refuted: {
            let mut s2 = Stream::new(seed, "c18-params-2");
            (0..n).map(|_| *s2.pick(&[0u8, 0, 1, 1, 2, 3])).collect()
        },
    }
}

fn told(a_knows: u8, b: SimId) -> Option<Member<SimId>> {
    match a_knows {
        1 => Some(Member::new(b, 0, State::Alive)),
        2 => Some(Member::new(b, 0, State::Suspect)),
        3 => Some(Member::new(b, 0, State::Down)),
        4 => Some(Member::new(SimId::new(b.addr, b.gen - 1), 0, State::Alive)),
        5 => Some(Member::new(SimId::new(b.addr, b.gen - 1), 0, State::Down)),
        6 => Some(Member::new(b, 3, State::Alive)),
        _ => None,
    }
}

pub fn execute(p: &P, seed: u64) -> RunOut {
    let mut out = RunOut::default();
    let mut cfg = foca::Config::simple();
    cfg.num_indirect_probes = NonZeroUsize::new(p.k).unwrap();
    cfg.max_transmissions = NonZeroU8::new(p.max_tx).unwrap();
    cfg.notify_down_members = p.notify_down;
    let ids: Vec<SimId> = (0..p.n).map(|i| SimId::new(i as u16 + 1, GEN)).collect();
    let mut ds: Vec<Driver> = (0..p.n)
        .map(|i| Driver::new(Setup { id: ids[i], cfg: cfg.clone(), codec: p.codec, policy: p.policy, hcfg: HandlerCfg::default_cfg(), rng_seed: crate::prng::mix2(seed, i as u64), acc_twin: false }))
        .collect();
    // mutual knowledge; whatever these calls send is discarded (the exchange starts afterwards)
    for a in 0..p.n {
        for _ in 0..p.refuted.get(a).copied().unwrap_or(0) {
            let inc = ds[a].obs.snap.incarnation;
            ds[a].step(Input::ApplyMany(vec![Member::new(ids[a], inc, State::Suspect)], p.broadcast[a]));
        }
        let ups: Vec<Member<SimId>> = (0..p.n).filter(|b| *b != a).filter_map(|b| told(p.knowledge[a][b], ids[b])).collect();
        if !ups.is_empty() {
            ds[a].step(Input::ApplyMany(ups, p.broadcast[a]));
        }
        match p.self_state[a] {
            1 => {
                ds[a].step(Input::Leave);
            }
            2 => {
                let stranger = SimId::new(9, 1);
                ds[a].deliver(stranger, 0, Message::TurnUndead, &[]);
            }
            _ => {}
        }
    }
    // the initial datagram, as a correct instance in that state would send it
    let (a, b, kind, stale_dst) = p.init;
    let src = ds[a].id();
    let dst_known = ds[a].obs.slot(ids[b].addr).map(|m| *m.id());
    let dst = if stale_dst { dst_known.unwrap_or(ds[b].id()) } else { ds[b].id() };
    let third = ids[(b + 1) % p.n];
    let message = match kind {
        0 => Message::Ping(7),
        1 => Message::Ack(7),
        2 => Message::PingReq { target: if third == dst { src } else { third }, probe_number: 7 },
        3 => Message::IndirectPing { origin: third, probe_number: 7 },
        4 => Message::IndirectAck { target: third, probe_number: 7 },
        5 => Message::ForwardedAck { origin: third, probe_number: 7 },
        6 => Message::Gossip,
        7 => Message::Announce,
        8 => Message::Feed,
        9 => Message::Broadcast,
        _ => Message::TurnUndead,
    };
    let carries = !matches!(message, Message::Announce | Message::TurnUndead | Message::Broadcast);
    let ups: Vec<Member<SimId>> = ds[a].obs.state.iter().take(p.init_updates as usize).cloned().collect();
    let header = Header { src, src_incarnation: ds[a].obs.snap.incarnation, dst, message };
    let first = build_datagram(p.codec, &header, if carries && !ups.is_empty() { Some(&ups) } else { None }, &[]);
    let mut net: Vec<(u16, Vec<u8>)> = vec![(dst.addr, first)];
    let mut s = Stream::new(seed, "c18-order");
    let mut deliveries = 0usize;
    let mut total_sent = 0usize;
    let mut log = LogHash::new();
    let mut sig = LogHash::new();
    let mut recent: Vec<String> = Vec::new();
    let mut vs: Vec<Violation> = Vec::new();
    while !net.is_empty() && deliveries < p.budget {
        let i = s.below(net.len() as u64) as usize;
        let (to_addr, data) = net.swap_remove(i);
        let Some(t) = ds.iter().position(|d| d.id().addr == to_addr) else { continue };
        if ds[t].dead() {
            break;
        }
        deliveries += 1;
        let kind_in = parse_datagram(p.codec, &data).map(|x| msg_kind(&x.header.message)).unwrap_or("?");
        let rec = ds[t].step(Input::Data(data));
        let n_out = rec.sends().count();
        total_sent += n_out;
        sig.s(kind_in);
        sig.u(n_out as u64);
        log.u(ds[t].log.0);
        let mut kinds_out = Vec::new();
        for (to, d) in rec.sends() {
            kinds_out.push(parse_datagram(p.codec, d).map(|x| msg_kind(&x.header.message)).unwrap_or("?"));
            net.push((to.addr, d.clone()));
        }
        recent.push(format!("{}<-{kind_in}:{:?}", to_addr, kinds_out));
        if recent.len() > 8 {
            recent.remove(0);
        }
        out.stats.max("c18_max_new_datagrams_per_delivery", n_out as u64);
        if n_out > 2 * p.k + 2 {
            vs.push(Violation { property: "C18", tag: "C18/burst".into(), detail: format!("one {kind_in} delivered to node {to_addr} caused {n_out} new datagrams (fan-out {})", p.k), at: deliveries as u64 });
            break;
        }
    }
    out.stats.max("c18_max_deliveries_until_quiet", deliveries as u64);
    out.stats.max("c18_max_datagrams_in_cascade", total_sent as u64);
    out.stats.add("c18_deliveries", deliveries as u64);
    if !net.is_empty() && vs.is_empty() && deliveries >= p.budget {
        vs.push(Violation { property: "C18", tag: "C18/no-termination".into(), detail: format!("{} deliveries after a single datagram and {} still in flight; last exchanges: {}", deliveries, net.len(), recent.join(" ")), at: deliveries as u64 });
    }
    for d in &ds {
        out.stats.merge(&d.stats);
        vs.extend(d.violations.clone());
    }
    out.nontrivial = deliveries >= 1;
    for d in &ds {
        sig.u(d.sig.0);
    }
    out.signature = sig.0;
    out.log_hash = log.0;
    out.violations = vs;
    out
}

pub struct Cascade;
impl Scenario for Cascade {
    fn name(&self) -> &'static str {
        "reply-cascade"
    }
    fn gen(&self, seed: u64, _tier: Tier, _i: u64) -> Case {
        Case { property: "C18".into(), scenario: self.name().into(), seed, params: serde_json::to_value(gen_params(seed)).unwrap(), steps: vec![], explicit: false }
    }
    fn run(&self, case: &Case) -> RunOut {
        let p: P = serde_json::from_value(case.params.clone()).expect("C18 params");
        execute(&p, case.seed)
    }
    fn steps_minimisable(&self) -> bool {
        false
    }
    fn shrink(&self, case: &Case) -> Vec<Case> {
        let p: P = serde_json::from_value(case.params.clone()).unwrap();
        let mut v = Vec::new();
        let mut push = |q: P| v.push(Case { params: serde_json::to_value(q).unwrap(), ..case.clone() });
        if p.n == 3 && p.init.0 < 2 && p.init.1 < 2 {
            let mut q = p.clone();
            q.n = 2;
            q.knowledge.truncate(2);
            for r in q.knowledge.iter_mut() {
                r.truncate(2);
            }
            q.broadcast.truncate(2);
            q.self_state.truncate(2);
            push(q);
        }
        for a in 0..p.n {
            if p.self_state[a] != 0 {
                let mut q = p.clone();
                q.self_state[a] = 0;
                push(q);
            }
            if p.broadcast[a] {
                let mut q = p.clone();
                q.broadcast[a] = false;
                push(q);
            }
            for b in 0..p.n {
                if p.knowledge[a][b] != 0 && p.knowledge[a][b] != 1 {
                    let mut q = p.clone();
                    q.knowledge[a][b] = 1;
                    push(q);
                }
            }
        }
        if p.init_updates > 0 {
            let mut q = p.clone();
            q.init_updates = 0;
            push(q);
        }
        if p.k > 1 {
            let mut q = p.clone();
            q.k = 1;
            push(q);
        }
        if p.max_tx > 1 {
            let mut q = p.clone();
            q.max_tx = 1;
            push(q);
        }
        v
    }
}

pub fn def() -> CheckDef {
    CheckDef {
        property: "C18",
        level: "exploration",
        rule: "seeded: 2-3 real instances, every ordered pair in one of 7 knowledge states (unknown, alive, suspect, down, older generation alive/down, higher incarnation), each instance active/idle/left/told-down, backlogs empty or not, renew policies Never/Next/Same/Losing, notify_down_members on/off, fan-out 1..3; timers recorded and never fired; one initial datagram of each of the 11 kinds built as the sender would build it (optionally addressed to the sender's stale idea of the receiver); resulting datagrams delivered in seeded random order until the network is empty or 400 deliveries; non-trivial = at least one delivery; distinct = sequence of (kind delivered, number of datagrams caused)",
        assumptions: vec![
            "max_transmissions <= 5 so that legitimate refutation gossip (bounded by remaining transmissions) stays far below the delivery budget".into(),
            "per-delivery bound 2*fan-out+2 (two renewals with their gossip plus a reply)".into(),
        ],
        real_components: "2-3 real Foca instances exchanging real datagrams; all monitors attached",
        stub_components: "delivery order chosen by the simulator; no clock (timers held); initial knowledge injected with apply_many",
        batches: vec![Batch { scenario: &Cascade, quick: 200_000, thorough: 10_000_000 }],
        extra: None,
    }
}
