//! C07 — every emitted datagram is well-formed, bounded and accepted by its peer.
//! The enumerated fault is "encode space runs out after b bytes": every message kind is emitted
//! at every packet size from the largest header up, with full backlogs.

use crate::checks::c02::largest_header;
use crate::codec::{msg_kind, parse_datagram, CodecKind};
use crate::frame::{Batch, Case, CheckDef, RunOut, Scenario, Tier, Violation};
use crate::handler::{HandlerCfg, Rel};
use crate::hist::Hist;
use crate::id::{Policy, RenewMode, SimId};
use crate::node::{ErrKind, Input, Node, Res, Setup};
use crate::prng::Stream;
use crate::script::{is_indirect, is_probe, Driver};
use foca::{Config, Member, Message, State};
use std::num::{NonZeroU8, NonZeroUsize};

#[derive(Clone, Debug, serde::Serialize, serde::Deserialize)]
pub struct P {
    pub codec: CodecKind,
    pub var_ids: bool,
    pub mps: usize,
    pub members: usize,
    pub rng_seed: u64,
}

const CODECS: [CodecKind; 4] = [CodecKind::Wire, CodecKind::WireDirty, CodecKind::Bincode, CodecKind::Postcard];
const SPECIAL: [usize; 3] = [1400, 65_535, 65_536];
const SPAN: usize = 301;

fn members_choices(tier: Tier) -> &'static [usize] {
    match tier {
        Tier::Quick => &[0, 3, 12],
        Tier::Thorough => &[0, 1, 2, 3, 5, 8, 12, 20, 40],
    }
}
fn seeds(tier: Tier) -> u64 {
    match tier {
        Tier::Quick => 1,
        Tier::Thorough => 3,
    }
}

fn ids(n: usize) -> Vec<SimId> {
    (1..=n as u16 + 4).map(|a| SimId::new(a, 7)).collect()
}

fn case_of(tier: Tier, mut i: u64) -> P {
    let mut take = |n: u64| {
        let r = i % n;
        i /= n;
        r
    };
    let size_idx = take((SPAN + SPECIAL.len()) as u64) as usize;
    let codec = CODECS[take(4) as usize];
    let var_ids = take(2) == 1;
    let mc = members_choices(tier);
    let members = mc[take(mc.len() as u64) as usize];
    let rng_seed = 1 + take(seeds(tier));
    crate::id::set_policy(Policy { renew: RenewMode::Never, mask: 0, var_ids });
    let hdr = largest_header(&ids(members.max(2)), codec);
    let mps = if size_idx < SPAN { hdr + size_idx } else { SPECIAL[size_idx - SPAN] };
    P { codec, var_ids, mps, members, rng_seed }
}

/// Hand a datagram to a fresh real peer that owns the destination identity.
fn peer_accepts(p: &P, cfg: &Config, to: SimId, data: &[u8]) -> Result<(), ErrKind> {
    let setup = Setup { id: to, cfg: cfg.clone(), codec: p.codec, policy: Policy { renew: RenewMode::Never, mask: 0, var_ids: p.var_ids }, hcfg: HandlerCfg { rel: Rel::SameKey, allow_mask: u64::MAX, err_on_short: false }, rng_seed: 5, acc_twin: false };
    let mut peer = Node::new(&setup);
    let rec = peer.call(Input::Data(data.to_vec()));
    match rec.result {
        Res::Err(e @ (ErrKind::Decode | ErrKind::MalformedPacket | ErrKind::DataTooBig)) => Err(e),
        _ => Ok(()),
    }
}

pub fn run_params(p: &P, seed: u64) -> RunOut {
    let mut out = RunOut::default();
    let policy = Policy { renew: RenewMode::Never, mask: 0, var_ids: p.var_ids };
    let mut cfg = Config::simple();
    cfg.max_packet_size = NonZeroUsize::new(p.mps).unwrap();
    cfg.max_transmissions = NonZeroU8::new(200).unwrap();
    cfg.num_indirect_probes = NonZeroUsize::new(3).unwrap();
    cfg.notify_down_members = true;
    let own = SimId::new(1, 7);
    let mut d = Driver::new(Setup { id: own, cfg: cfg.clone(), codec: p.codec, policy, hcfg: HandlerCfg { rel: Rel::Nothing, allow_mask: u64::MAX, err_on_short: false }, rng_seed: p.rng_seed, acc_twin: false });
    let mut s = Stream::new(seed ^ p.rng_seed, "c07-fill");
    // members 2..: mixed states so that the backlog holds updates of mixed sizes
    let all = ids(p.members);
    let others: Vec<SimId> = all.iter().filter(|x| **x != own).cloned().collect();
    let active: Vec<SimId> = others.iter().take(p.members).cloned().collect();
    let mut ups: Vec<Member<SimId>> = active.iter().map(|x| Member::new(*x, s.below(3) as u16 * 32000, if s.chance(1, 4) { State::Suspect } else { State::Alive })).collect();
    let down_id = SimId::new(60, 7);
    ups.push(Member::new(down_id, 9, State::Down));
    d.step(Input::ApplyMany(ups, true));
    // custom backlog: items of sizes 2..fits
    let room = p.mps.saturating_sub(20);
    for (k, len) in [2usize, 3, 5, 9, 17, 33, 70, 150, 290, room.min(1200), room].iter().enumerate() {
        if *len >= 2 && *len <= room.max(2) {
            let mut item = vec![k as u8, 1];
            item.resize(*len, 0xAB);
            d.step(Input::AddBroadcast(item));
        }
    }
    let mut vs: Vec<Violation> = Vec::new();
    let mut emitted: Vec<&'static str> = Vec::new();
    let probe = |d: &mut Driver, vs: &mut Vec<Violation>, emitted: &mut Vec<&'static str>, rec: &crate::node::CallRec| {
        for (to, data) in rec.sends() {
            let kind = parse_datagram(p.codec, data).map(|x| msg_kind(&x.header.message)).unwrap_or("?");
            emitted.push(kind);
            if let Err(e) = peer_accepts(p, &cfg, *to, data) {
                vs.push(Violation { property: "C07", tag: "C07/peer-rejected".into(), detail: format!("a peer with the same codec and packet size rejects the {kind} ({} bytes, max_packet_size {}) with {e:?}", data.len(), p.mps), at: d.history.len() as u64 });
            }
        }
    };
    let peer = active.first().copied().unwrap_or(SimId::new(2, 7));
    let third = active.get(1).copied().unwrap_or(SimId::new(3, 7));
    let mut acts: Vec<Input> = vec![Input::Announce(peer), Input::Gossip, Input::Broadcast];
    let from = |d: &Driver, src: SimId, m: Message<SimId>| Input::Data(d.dgram(src, 0, m, None, &[]));
    acts.push(from(&d, peer, Message::Ping(4)));
    acts.push(from(&d, peer, Message::PingReq { target: third, probe_number: 4 }));
    acts.push(from(&d, peer, Message::IndirectPing { origin: third, probe_number: 4 }));
    acts.push(from(&d, peer, Message::IndirectAck { target: third, probe_number: 4 }));
    acts.push(from(&d, peer, Message::Announce));
    acts.push(from(&d, SimId::new(70, 7), Message::Announce)); // a stranger joins: Feed of everyone
    acts.push(from(&d, down_id, Message::Gossip)); // a Down sender: TurnUndead
    for a in acts {
        if d.dead() {
            break;
        }
        let rec = d.step(a);
        probe(&mut d, &mut vs, &mut emitted, &rec);
    }
    // probe cycle: Ping, then PingReq
    for _ in 0..2 {
        if d.dead() {
            break;
        }
        if let Some(rec) = d.fire(is_probe) {
            probe(&mut d, &mut vs, &mut emitted, &rec);
        }
        if let Some(rec) = d.fire(is_indirect) {
            probe(&mut d, &mut vs, &mut emitted, &rec);
        }
    }
    for k in &emitted {
        out.stats.inc(&format!("c07_sweep_emitted_{k}"));
    }
    out.evaluations = emitted.len() as u64;
    out.nontrivial = !emitted.is_empty();
    out.signature = d.sig.0;
    out.log_hash = d.log.0;
    out.stats.merge(&d.stats);
    vs.extend(d.violations.clone());
    out.violations = vs;
    out
}

pub struct PackingSweep;
impl Scenario for PackingSweep {
    fn name(&self) -> &'static str {
        "packing-sweep"
    }
    fn gen(&self, seed: u64, tier: Tier, i: u64) -> Case {
        Case { property: "C07".into(), scenario: self.name().into(), seed, params: serde_json::to_value(case_of(tier, i)).unwrap(), steps: vec![], explicit: false }
    }
    fn run(&self, case: &Case) -> RunOut {
        let p: P = serde_json::from_value(case.params.clone()).expect("C07 params");
        run_params(&p, 7)
    }
    fn steps_minimisable(&self) -> bool {
        false
    }
    fn exhaustive_len(&self, tier: Tier) -> Option<u64> {
        Some(((SPAN + SPECIAL.len()) * 4 * 2 * members_choices(tier).len()) as u64 * seeds(tier))
    }
    fn shrink(&self, case: &Case) -> Vec<Case> {
        let p: P = serde_json::from_value(case.params.clone()).unwrap();
        let mut v = Vec::new();
        if p.members > 0 {
            let mut q = p.clone();
            q.members = p.members / 2;
            v.push(Case { params: serde_json::to_value(q).unwrap(), ..case.clone() });
        }
        if p.var_ids {
            let mut q = p.clone();
            q.var_ids = false;
            v.push(Case { params: serde_json::to_value(q).unwrap(), ..case.clone() });
        }
        v
    }
}

static H07: Hist = Hist { name: "adversarial-history", focus: "C07" };

pub fn def() -> CheckDef {
    CheckDef {
        property: "C07",
        level: "fault_enumeration",
        rule: "enumeration: an instance with m active members (quick {0,3,12}; thorough {0,1,2,3,5,8,12,20,40}), a full update backlog of mixed sizes and a custom backlog of items of sizes 2..fits is made to emit every message kind through its public surface (announce, gossip, broadcast, probe timer, indirect timer, incoming Ping/PingReq/IndirectPing/IndirectAck/Announce, datagram from a Down sender) at EVERY max_packet_size from the largest header to that plus 300 bytes and at 1400, 65535, 65536, for 4 codecs (hand-written clean / dirty-on-full, bincode, postcard) x fixed/variable identity encodings; each datagram is parsed by the independent grammar parser and handed to a real peer; plus seeded adversarial histories with the same monitor on every Send; evaluations = datagrams emitted in the sweep + history runs; distinct = abstracted event logs",
        assumptions: vec![
            "the independent parser implements the grammar in the Header documentation (header; u16 count + members for piggybacking kinds; u16-length-prefixed non-empty items), not handle_data".into(),
            "header source/incarnation are checked against the identity chain and the hook snapshot at call boundaries".into(),
            "packet sizes below the largest header (where encode_header itself fails) are exercised by C06 only".into(),
        ],
        real_components: "the emitting Foca instance and one fresh real peer instance per emitted datagram",
        stub_components: "incoming datagrams that provoke the replies are scripted",
        batches: vec![Batch { scenario: &PackingSweep, quick: 0, thorough: 0 }, Batch { scenario: &H07, quick: 60_000, thorough: 3_000_000 }, Batch { scenario: crate::checks::histchecks::chaos_for("C07"), quick: 6_000, thorough: 150_000 }, Batch { scenario: crate::checks::histchecks::exhaustive_for("C07"), quick: 0, thorough: 0 }],
        extra: None,
    }
}
