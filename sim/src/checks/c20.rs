//! C20 — bundled codecs round-trip exactly and fail cleanly. Fault table on the BufMut / Buf
//! seams: "write space ends after b bytes" and "datagram torn after b bytes", for every b.

use crate::checks::c07::PackingSweep;
use crate::frame::{Batch, Case, CheckDef, RunOut, Scenario, Tier, Violation};
use crate::hist::Hist;
use crate::id::{Policy, RenewMode, SimId};
use crate::prng::Stream;
use bytes::{Buf, BufMut};
use foca::{BincodeCodec, Codec, Header, Identity, Member, Message, PostcardCodec, State};
use std::panic::{catch_unwind, AssertUnwindSafe};

/// A second identity shape with strings, options and nested data (what users actually ship).
#[derive(Clone, Debug, PartialEq, Eq, serde::Serialize, serde::Deserialize)]
pub struct RichId {
    pub host: String,
    pub port: u16,
    pub bump: u64,
    pub tags: Vec<String>,
    pub shard: Option<i32>,
    pub ok: bool,
}
impl Identity for RichId {
    type Addr = (String, u16);
    fn renew(&self) -> Option<Self> {
        let mut x = self.clone();
        x.bump = x.bump.wrapping_add(1);
        Some(x)
    }
    fn addr(&self) -> (String, u16) {
        (self.host.clone(), self.port)
    }
    fn win_addr_conflict(&self, o: &Self) -> bool {
        self.bump > o.bump
    }
}

fn rich(s: &mut Stream) -> RichId {
    let host_len = *s.pick(&[0usize, 1, 9, 40, 200]);
    let host: String = (0..host_len).map(|i| char::from(b'a' + ((s.next() as u8).wrapping_add(i as u8) % 26))).collect();
    RichId {
        host: if s.chance(1, 8) { "héllo-wörld-✓".to_string() } else { host },
        port: *s.pick(&[0u16, 1, 80, 65535]),
        bump: *s.pick(&[0u64, 1, 127, 128, 16383, 16384, u32::MAX as u64, u64::MAX]),
        tags: (0..s.below(4)).map(|i| format!("t{i}-{}", s.below(1000))).collect(),
        shard: *s.pick(&[None, Some(0), Some(-1), Some(i32::MIN), Some(i32::MAX)]),
        ok: s.chance(1, 2),
    }
}
fn simple(s: &mut Stream) -> SimId {
    SimId::new(*s.pick(&[0u16, 1, 250, 251, 65535]), *s.pick(&[0u32, 1, 250, 251, 65535, 65536, u32::MAX]))
}
fn inc(s: &mut Stream) -> u16 {
    *s.pick(&[0u16, 1, 127, 128, 250, 251, 255, 256, 16383, 16384, u16::MAX - 1, u16::MAX])
}
fn pn(s: &mut Stream) -> u8 {
    *s.pick(&[0u8, 1, 127, 128, 250, 251, 254, 255])
}

fn message<T: Clone>(s: &mut Stream, which: u64, id: T) -> Message<T> {
    match which % 11 {
        0 => Message::Ping(pn(s)),
        1 => Message::Ack(pn(s)),
        2 => Message::PingReq { target: id, probe_number: pn(s) },
        3 => Message::IndirectPing { origin: id, probe_number: pn(s) },
        4 => Message::IndirectAck { target: id, probe_number: pn(s) },
        5 => Message::ForwardedAck { origin: id, probe_number: pn(s) },
        6 => Message::Gossip,
        7 => Message::Announce,
        8 => Message::Feed,
        9 => Message::Broadcast,
        _ => Message::TurnUndead,
    }
}

struct Tally {
    ops: u64,
    vs: Vec<Violation>,
    roundtrips: u64,
    short_bufs: u64,
    truncations: u64,
    corruptions: u64,
    corrupt_decoded_ok: u64,
}

fn fail(t: &mut Tally, tag: &str, detail: String) {
    if t.vs.len() < 4 {
        t.vs.push(Violation { property: "C20", tag: tag.to_string(), detail, at: t.ops });
    }
}

/// The whole fault table for one value, with explicit encode / decode closures.
#[allow(clippy::too_many_arguments)]
fn table<V: PartialEq + std::fmt::Debug>(
    t: &mut Tally,
    what: &str,
    value: &V,
    s: &mut Stream,
    corruptions: usize,
    encode_into: &mut dyn FnMut(&V, usize) -> (Result<(), String>, Vec<u8>),
    decode_from: &mut dyn FnMut(&[u8]) -> (Result<V, String>, usize),
) {
    // 1. round trip with junk after the value
    let (r, bytes) = encode_into(value, usize::MAX);
    t.ops += 1;
    if let Err(e) = r {
        fail(t, "C20/encode-failed-with-room", format!("{what}: encoding {value:?} into an unbounded buffer failed: {e}"));
        return;
    }
    let njunk = s.below(9) as usize;
    let junk = s.bytes(njunk);
    let mut with_junk = bytes.clone();
    with_junk.extend_from_slice(&junk);
    let r = catch_unwind(AssertUnwindSafe(|| decode_from(&with_junk)));
    t.ops += 1;
    t.roundtrips += 1;
    match r {
        Err(_) => fail(t, "C20/panic-in-decode", format!("{what}: decoding a valid encoding of {value:?} panicked")),
        Ok((Err(e), _)) => fail(t, "C20/roundtrip-decode-error", format!("{what}: {value:?} encodes to {} bytes that do not decode: {e}", bytes.len())),
        Ok((Ok(v), used)) => {
            if v != *value {
                fail(t, "C20/roundtrip-different-value", format!("{what}: {value:?} decoded back as {v:?}"));
            }
            if used != bytes.len() {
                fail(t, "C20/roundtrip-consumed-wrong-length", format!("{what}: produced {} bytes, decoding consumed {used} (followed by {} junk bytes)", bytes.len(), junk.len()));
            }
        }
    }
    // 2. write space ends after b bytes, for every b < len
    for b in 0..bytes.len() {
        let r = catch_unwind(AssertUnwindSafe(|| encode_into(value, b)));
        t.ops += 1;
        t.short_bufs += 1;
        match r {
            Err(_) => fail(t, "C20/panic-in-encode", format!("{what}: encoding {value:?} ({} bytes) into {b} bytes of space panicked", bytes.len())),
            Ok((Ok(()), _)) => fail(t, "C20/encode-succeeded-without-room", format!("{what}: encoding {} bytes into {b} bytes of space reported success", bytes.len())),
            Ok((Err(_), written)) => {
                if written.len() > b {
                    fail(t, "C20/wrote-beyond-limit", format!("{what}: {} bytes written with {b} bytes of space", written.len()));
                }
            }
        }
    }
    // 3. datagram torn after b bytes, for every b < len
    for b in 0..bytes.len() {
        let r = catch_unwind(AssertUnwindSafe(|| decode_from(&bytes[..b])));
        t.ops += 1;
        t.truncations += 1;
        match r {
            Err(_) => fail(t, "C20/panic-in-decode", format!("{what}: decoding the first {b} of {} bytes panicked", bytes.len())),
            Ok((Ok(v), used)) => {
                if used > b {
                    fail(t, "C20/read-past-input", format!("{what}: consumed {used} of {b} bytes"));
                }
                // a strict prefix that still decodes must not claim to be the same value having consumed less... it may decode (varint formats), that is allowed
                let _ = v;
            }
            Ok((Err(_), used)) => {
                if used > b {
                    fail(t, "C20/read-past-input", format!("{what}: consumed {used} of {b} bytes"));
                }
            }
        }
    }
    // 4. random corruptions
    for _ in 0..corruptions {
        let mut c = bytes.clone();
        if c.is_empty() {
            break;
        }
        match s.below(4) {
            0 => {
                let i = s.below(c.len() as u64) as usize;
                c[i] ^= 1 << s.below(8);
            }
            1 => {
                let i = s.below(c.len() as u64) as usize;
                c[i] = s.below(256) as u8;
            }
            2 => {
                let i = s.below(c.len() as u64) as usize;
                c[i] = 0xff;
                if i + 1 < c.len() {
                    c[i + 1] = 0xff;
                }
            }
            _ => {
                let n = s.range(1, 16) as usize;
                c = s.bytes(n);
            }
        }
        let len = c.len();
        let r = catch_unwind(AssertUnwindSafe(|| decode_from(&c)));
        t.ops += 1;
        t.corruptions += 1;
        match r {
            Err(_) => fail(t, "C20/panic-in-decode", format!("{what}: decoding corrupted bytes {} panicked", crate::node::hex::to_hex(&c))),
            Ok((res, used)) => {
                if res.is_ok() {
                    t.corrupt_decoded_ok += 1;
                }
                if used > len {
                    fail(t, "C20/read-past-input", format!("{what}: consumed {used} of {len} bytes"));
                }
            }
        }
    }
}

macro_rules! closures {
    ($codec:expr, $ty:ty, header) => {{
        let enc = |v: &Header<$ty>, room: usize| -> (Result<(), String>, Vec<u8>) {
            let mut c = $codec;
            if room == usize::MAX {
                let mut buf: Vec<u8> = Vec::new();
                let r = c.encode_header(v, &mut buf).map_err(|e| e.to_string());
                (r, buf)
            } else {
                let mut buf = Vec::new().limit(room);
                let r = c.encode_header(v, &mut buf).map_err(|e| e.to_string());
                (r, buf.into_inner())
            }
        };
        let dec = |b: &[u8]| -> (Result<Header<$ty>, String>, usize) {
            let mut c = $codec;
            let mut cur: &[u8] = b;
            let r = c.decode_header(&mut cur).map_err(|e| e.to_string());
            (r, b.len() - cur.remaining())
        };
        (enc, dec)
    }};
    ($codec:expr, $ty:ty, member) => {{
        let enc = |v: &Member<$ty>, room: usize| -> (Result<(), String>, Vec<u8>) {
            let mut c = $codec;
            if room == usize::MAX {
                let mut buf: Vec<u8> = Vec::new();
                let r = c.encode_member(v, &mut buf).map_err(|e| e.to_string());
                (r, buf)
            } else {
                let mut buf = Vec::new().limit(room);
                let r = c.encode_member(v, &mut buf).map_err(|e| e.to_string());
                (r, buf.into_inner())
            }
        };
        let dec = |b: &[u8]| -> (Result<Member<$ty>, String>, usize) {
            let mut c = $codec;
            let mut cur: &[u8] = b;
            let r = c.decode_member(&mut cur).map_err(|e| e.to_string());
            (r, b.len() - cur.remaining())
        };
        (enc, dec)
    }};
}

#[derive(Clone, Debug, serde::Serialize, serde::Deserialize)]
pub struct P {
    pub corruptions: usize,
    pub var_ids: bool,
}

pub struct FaultTable;
impl Scenario for FaultTable {
    fn name(&self) -> &'static str {
        "codec-fault-table"
    }
    fn gen(&self, seed: u64, tier: Tier, _i: u64) -> Case {
        let p = P { corruptions: match tier { Tier::Quick => 40, Tier::Thorough => 1000 }, var_ids: seed % 2 == 0 };
        Case { property: "C20".into(), scenario: self.name().into(), seed, params: serde_json::to_value(p).unwrap(), steps: vec![], explicit: false }
    }
    fn run(&self, case: &Case) -> RunOut {
        let p: P = serde_json::from_value(case.params.clone()).expect("C20 params");
        crate::id::set_policy(Policy { renew: RenewMode::Never, mask: 0, var_ids: p.var_ids });
        let mut s = Stream::new(case.seed, "c20-values");
        let mut t = Tally { ops: 0, vs: Vec::new(), roundtrips: 0, short_bufs: 0, truncations: 0, corruptions: 0, corrupt_decoded_ok: 0 };
        let which = s.next();
        let st = *s.pick(&[State::Alive, State::Suspect, State::Down]);
        // simple identity, both codecs, header and member
        {
            let (a, b, c) = (simple(&mut s), simple(&mut s), simple(&mut s));
            let h = Header { src: a, src_incarnation: inc(&mut s), dst: b, message: message(&mut s, which, c) };
            let m = Member::new(a, inc(&mut s), st);
            let (mut e, mut d) = closures!(BincodeCodec(bincode::config::standard()), SimId, header);
            table(&mut t, "bincode header<SimId>", &h, &mut s, p.corruptions, &mut e, &mut d);
            let (mut e, mut d) = closures!(PostcardCodec, SimId, header);
            table(&mut t, "postcard header<SimId>", &h, &mut s, p.corruptions, &mut e, &mut d);
            let (mut e, mut d) = closures!(BincodeCodec(bincode::config::standard()), SimId, member);
            table(&mut t, "bincode member<SimId>", &m, &mut s, p.corruptions, &mut e, &mut d);
            let (mut e, mut d) = closures!(PostcardCodec, SimId, member);
            table(&mut t, "postcard member<SimId>", &m, &mut s, p.corruptions, &mut e, &mut d);
        }
        // rich identity
        {
            let (a, b, c) = (rich(&mut s), rich(&mut s), rich(&mut s));
            let h = Header { src: a.clone(), src_incarnation: inc(&mut s), dst: b, message: message(&mut s, which / 11, c) };
            let m = Member::new(a, inc(&mut s), st);
            // unbounded bincode pre-allocates whatever a corrupted String length prefix claims and aborts
            // the process (known finding K-C20-1, reproduced out of process by `LengthPrefixProbe`);
            // the in-process table runs with a decode limit so that the rest can be explored
            let (mut e, mut d) = closures!(BincodeCodec(bincode::config::standard().with_limit::<65536>()), RichId, header);
            table(&mut t, "bincode(limit 64KiB) header<RichId>", &h, &mut s, p.corruptions, &mut e, &mut d);
            let (mut e, mut d) = closures!(PostcardCodec, RichId, header);
            table(&mut t, "postcard header<RichId>", &h, &mut s, p.corruptions, &mut e, &mut d);
            let (mut e, mut d) = closures!(BincodeCodec(bincode::config::standard().with_limit::<65536>()), RichId, member);
            table(&mut t, "bincode(limit 64KiB) member<RichId>", &m, &mut s, p.corruptions, &mut e, &mut d);
            let (mut e, mut d) = closures!(PostcardCodec, RichId, member);
            table(&mut t, "postcard member<RichId>", &m, &mut s, p.corruptions, &mut e, &mut d);
        }
        let mut out = RunOut::default();
        out.evaluations = t.ops;
        out.nontrivial = true;
        out.signature = crate::prng::mix2(which % 11, (st as u64) << 8 | p.var_ids as u64) ^ crate::prng::mix(case.seed);
        out.log_hash = t.ops;
        out.stats.add("c20_roundtrips", t.roundtrips);
        out.stats.add("c20_short_buffer_encodes", t.short_bufs);
        out.stats.add("c20_truncated_decodes", t.truncations);
        out.stats.add("c20_corrupted_decodes", t.corruptions);
        out.stats.add("c20_corrupted_decodes_that_yielded_a_value", t.corrupt_decoded_ok);
        out.stats.inc(&format!("c20_message_variant_{}", which % 11));
        out.violations = t.vs;
        out
    }
    fn steps_minimisable(&self) -> bool {
        false
    }
}

/// The C07 packing sweep restricted to the bundled codecs: datagrams stay well-formed and
/// acceptable when encode_member fails for lack of space mid-feed.
pub struct SerdeSweep;
impl Scenario for SerdeSweep {
    fn name(&self) -> &'static str {
        "serde-packing-sweep"
    }
    fn gen(&self, seed: u64, tier: Tier, i: u64) -> Case {
        // the sweep index space has the codec as its second digit: map onto bincode/postcard only
        let sizes = 304u64;
        let (lo, hi) = (i % sizes, i / sizes);
        let codec_digit = 2 + hi % 2;
        let rest = hi / 2;
        let mut c = PackingSweep.gen(seed, tier, lo + sizes * (codec_digit + 4 * rest));
        c.property = "C20".into();
        c.scenario = self.name().into();
        c
    }
    fn run(&self, case: &Case) -> RunOut {
        let mut out = PackingSweep.run(case);
        for v in out.violations.iter_mut() {
            if v.property == "C07" {
                v.property = "C20";
                v.tag = format!("C20/datagram-not-well-formed-with-bundled-codec:{}", v.tag);
            }
        }
        out
    }
    fn steps_minimisable(&self) -> bool {
        false
    }
    fn exhaustive_len(&self, tier: Tier) -> Option<u64> {
        PackingSweep.exhaustive_len(tier).map(|n| n / 2)
    }
}

/// Out-of-process probe: a Header<RichId> whose String length prefix is corrupted to a huge value,
/// decoded with BincodeCodec(standard()) (no limit), as in the crate's documentation example.
pub struct LengthPrefixProbe;

pub fn probe_bytes(variant: u64) -> Vec<u8> {
    let id = RichId { host: "node-a".into(), port: 7, bump: 1, tags: vec![], shard: None, ok: true };
    let h = Header { src: id.clone(), src_incarnation: 0, dst: id, message: Message::Gossip };
    let mut c = BincodeCodec(bincode::config::standard());
    let mut buf: Vec<u8> = Vec::new();
    c.encode_header(&h, &mut buf).expect("encode");
    // the first byte is the varint length of `host`; 253 announces a u64 length
    let len: u64 = match variant {
        0 => 1 << 62,
        1 => 1 << 46,
        _ => u64::MAX >> 1,
    };
    let mut out = vec![253u8];
    out.extend_from_slice(&len.to_le_bytes());
    out.extend_from_slice(&buf[1..]);
    out
}

/// Runs in the child process.
pub fn child_decode(hex: &str) -> i32 {
    let Some(bytes) = crate::node::hex::from_hex(hex) else { return 2 };
    let mut c = BincodeCodec(bincode::config::standard());
    let mut cur: &[u8] = &bytes;
    let r: Result<Header<RichId>, _> = c.decode_header(&mut cur);
    println!("decoded: {}", if r.is_ok() { "value" } else { "error" });
    0
}

impl Scenario for LengthPrefixProbe {
    fn name(&self) -> &'static str {
        "bincode-length-prefix-probe"
    }
    fn gen(&self, seed: u64, _tier: Tier, i: u64) -> Case {
        Case { property: "C20".into(), scenario: self.name().into(), seed, params: serde_json::json!({"variant": i, "datagram": crate::node::hex::to_hex(&probe_bytes(i))}), steps: vec![], explicit: false }
    }
    fn run(&self, case: &Case) -> RunOut {
        let mut out = RunOut::default();
        let hex = case.params["datagram"].as_str().unwrap_or("").to_string();
        let exe = std::env::current_exe().expect("current exe");
        let res = std::process::Command::new(exe).args(["c20-child", &hex]).output();
        out.nontrivial = true;
        out.signature = crate::prng::name_hash(&hex);
        match res {
            Ok(o) if o.status.success() => {}
            Ok(o) => {
                let why = String::from_utf8_lossy(&o.stderr).lines().next().unwrap_or("").to_string();
                out.violations.push(Violation {
                    property: "C20",
                    tag: "C20/abort-or-panic-in-decode:bincode-unbounded-length-prefix".into(),
                    detail: format!("BincodeCodec(standard()) decoding a {}-byte header whose String length prefix claims a huge length killed the process ({:?}): {why}", hex.len() / 2, o.status),
                    at: 0,
                });
            }
            Err(e) => out.violations.push(Violation { property: "C20", tag: "HARNESS/cannot-spawn-child".into(), detail: e.to_string(), at: 0 }),
        }
        out
    }
    fn steps_minimisable(&self) -> bool {
        false
    }
    fn exhaustive_len(&self, _tier: Tier) -> Option<u64> {
        Some(3)
    }
}

static H20: Hist = Hist { name: "serde-codec-history", focus: "C20" };

pub fn def() -> CheckDef {
    CheckDef {
        property: "C20",
        level: "fault_enumeration",
        rule: "fault table on the BufMut/Buf seams of BincodeCodec(standard()) and PostcardCodec: for seeded Header/Member values over every Message variant, two identity shapes (numeric with optional variable-length metadata; strings/options/vectors), boundary incarnations and probe numbers: encode + junk + decode (equal value, exactly the produced bytes consumed); encode into limit(b) for EVERY b < len (Err, no panic, nothing beyond the limit); decode EVERY truncation and 40 (quick) / 1000 (thorough) corruptions per value (value or Err, no panic, no read past the input); plus, in simulation, adversarial histories of real instances running those codecs and the C07 packing sweep (datagrams stay well-formed when encode_member fails mid-feed); evaluations = codec operations + runs; distinct = (message variant, state, identity shape, seed)",
        assumptions: vec!["the value-level round trip is a function of its input: it is decided by the enumerated fault table and reported separately from the simulated runs".into()],
        real_components: "foca::BincodeCodec, foca::PostcardCodec (real), real Foca instances in the history and sweep batches",
        stub_components: "Buf/BufMut arguments are the simulator's bounded buffers",
        batches: vec![
            Batch { scenario: &FaultTable, quick: 20_000, thorough: 200_000 },
            Batch { scenario: &H20, quick: 40_000, thorough: 2_000_000 },
            Batch { scenario: &SerdeSweep, quick: 0, thorough: 0 },
            Batch { scenario: &LengthPrefixProbe, quick: 0, thorough: 0 },
        ],
        extra: None,
    }
}
