//! C11 — suspicion timeout takes effect iff unrefuted; Down is final until forgotten.
//! Enumerated case table over a real instance driven through the genuine path
//! (probe -> no answer -> Suspect + genuine ChangeSuspectToDown timer), an interleaving, the timer.

use crate::codec::{enc_member, parse_datagram, CodecKind};
use crate::frame::{Batch, Case, CheckDef, RunOut, Scenario, Tier, Violation};
use crate::handler::{Effect, HandlerCfg};
use crate::id::{Policy, RenewMode, SimId};
use crate::node::{Input, Res, Setup};
use crate::prng::Stream;
use crate::script::{is_indirect, is_probe, ping_of, Driver};
use foca::{Config, Member, Message, OwnedNotification, State, Timer};
use serde_json::json;
use std::num::{NonZeroU8, NonZeroUsize};
use std::time::Duration;

const A: SimId = SimId::new(1, 10);
const B: SimId = SimId::new(2, 10);
const C: SimId = SimId::new(3, 10);

pub const INTERLEAVINGS: [&str; 12] = [
    "none",
    "duplicate-same-incarnation",
    "refuted-by-header",
    "refuted-by-update",
    "suspect-at-higher-incarnation",
    "down-by-gossip",
    "newer-identity-alive",
    "newer-identity-suspect",
    "newer-identity-down",
    "forgotten",
    "older-identity-noise",
    "lower-incarnation-noise",
];
pub const EPOCHS: [&str; 4] = ["current", "stale-identity-change", "stale-told-down", "stale-idle"];
const INCS: [u16; 3] = [0, 7, u16::MAX - 1];

#[derive(Clone, Debug, serde::Serialize, serde::Deserialize)]
pub struct P {
    pub interleaving: usize,
    pub epoch: usize,
    pub twice: bool,
    pub notify_down: bool,
    pub renewable: bool,
    pub inc: u16,
    pub with_c: bool,
    pub rng_seed: u64,
    /// random extra interleavings applied after the main one (random scenario only)
    pub extra: Vec<usize>,
}

pub fn base_cfg(notify_down: bool) -> Config {
    let mut c = Config::simple();
    c.probe_period = Duration::from_millis(1000);
    c.probe_rtt = Duration::from_millis(300);
    c.suspect_to_down_after = Duration::from_millis(3000);
    c.remove_down_after = Duration::from_secs(60);
    c.num_indirect_probes = NonZeroUsize::new(2).unwrap();
    c.max_transmissions = NonZeroU8::new(3).unwrap();
    c.notify_down_members = notify_down;
    c
}

fn fail(d: &mut Driver, tag: &str, detail: String) {
    let at = d.history.len() as u64;
    d.violations.push(Violation { property: "C11", tag: tag.to_string(), detail, at });
}

/// Drive the instance until `B` has been probed without an answer and is Suspect; returns the
/// genuine ChangeSuspectToDown timer.
fn suspect_b(d: &mut Driver, with_c: bool) -> Option<Timer<SimId>> {
    let codec = d.codec();
    for _round in 0..12 {
        let rec = d.fire(is_probe)?;
        // did this call just raise the suspicion?
        if let Some((t, _)) = rec.scheds().find(|(t, _)| matches!(t, Timer::ChangeSuspectToDown { member_id, .. } if *member_id == B)) {
            return Some(t.clone());
        }
        let (dst, n) = ping_of(&rec, codec)?;
        if dst != B {
            // everybody else answers at once
            let inc = d.obs.slot(dst.addr).map(|m| m.incarnation()).unwrap_or(0);
            d.deliver(dst, inc, Message::Ack(n), &[]);
        }
        d.fire(is_indirect)?;
        let _ = with_c;
    }
    None
}

fn apply_interleaving(d: &mut Driver, which: usize, p: &P) {
    let i = p.inc;
    let b2 = SimId::new(B.addr, B.gen + 1);
    let via_gossip = |d: &mut Driver, ups: &[Member<SimId>]| {
        if p.with_c && d.obs.active.iter().any(|m| *m.id() == C) {
            let inc = d.obs.slot(C.addr).map(|m| m.incarnation()).unwrap_or(0);
            d.deliver(C, inc, Message::Gossip, ups);
        } else {
            d.step(Input::ApplyMany(ups.to_vec(), true));
        }
    };
    match INTERLEAVINGS[which] {
        "none" => {}
        "duplicate-same-incarnation" => {
            via_gossip(d, &[Member::new(B, i, State::Suspect), Member::new(B, i, State::Alive)]);
        }
        "refuted-by-header" => {
            d.deliver(B, i + 1, Message::Gossip, &[]);
        }
        "refuted-by-update" => via_gossip(d, &[Member::new(B, i + 1, State::Alive)]),
        "suspect-at-higher-incarnation" => via_gossip(d, &[Member::new(B, i + 1, State::Suspect)]),
        "down-by-gossip" => via_gossip(d, &[Member::new(B, i, State::Down)]),
        "newer-identity-alive" => {
            d.deliver(b2, 0, Message::Gossip, &[]);
        }
        "newer-identity-suspect" => via_gossip(d, &[Member::new(b2, i, State::Suspect)]),
        "newer-identity-down" => via_gossip(d, &[Member::new(b2, 0, State::Down)]),
        "forgotten" => {
            via_gossip(d, &[Member::new(B, i, State::Down)]);
            d.step(Input::Timer(Timer::RemoveDown(B)));
        }
        "older-identity-noise" => {
            let b0 = SimId::new(B.addr, B.gen - 1);
            via_gossip(d, &[Member::new(b0, i.saturating_add(1), State::Alive)]);
            d.deliver(b0, i.saturating_add(1), Message::Gossip, &[]);
        }
        "lower-incarnation-noise" => {
            via_gossip(d, &[Member::new(B, i.saturating_sub(1), State::Alive), Member::new(B, i.saturating_sub(1), State::Suspect)]);
        }
        _ => unreachable!(),
    }
}

/// Change the connection epoch while keeping (or re-creating) B's record as Suspect(inc).
fn change_epoch(d: &mut Driver, p: &P) {
    match EPOCHS[p.epoch] {
        "current" => {}
        "stale-identity-change" => {
            let new = SimId::new(A.addr, d.id().gen + 5);
            d.step(Input::ChangeIdentity(new));
            // any datagram from a member makes it Active again
            d.step(Input::ApplyMany(vec![], true));
        }
        "stale-told-down" => {
            // some member tells us we are down: Defunct (then the user reuses the identity) or Rejoin
            let teller = if p.with_c { C } else { SimId::new(9, 1) };
            d.deliver(teller, 0, Message::TurnUndead, &[]);
            if d.obs.undead() {
                d.step(Input::ReuseDown);
            }
            d.step(Input::ApplyMany(vec![], true));
        }
        "stale-idle" => {
            // everyone goes down, is forgotten, and comes back exactly as before
            let mut downs = vec![Member::new(B, p.inc, State::Down)];
            if p.with_c {
                downs.push(Member::new(C, 0, State::Down));
            }
            d.step(Input::ApplyMany(downs, true));
            d.step(Input::Timer(Timer::RemoveDown(B)));
            let mut ups = vec![Member::new(B, p.inc, State::Suspect)];
            if p.with_c {
                d.step(Input::Timer(Timer::RemoveDown(C)));
                ups.push(Member::new(C, 0, State::Alive));
            }
            d.step(Input::ApplyMany(ups, true));
        }
        _ => unreachable!(),
    }
}

fn setup_of(p: &P) -> Setup {
    Setup {
        id: A,
        cfg: base_cfg(p.notify_down),
        codec: CodecKind::Wire,
        policy: Policy { renew: if p.renewable { RenewMode::Next } else { RenewMode::Never }, mask: u64::MAX, var_ids: false },
        hcfg: HandlerCfg::default_cfg(),
        rng_seed: p.rng_seed,
        acc_twin: p.rng_seed % 2 == 0,
    }
}

/// Fire the timer and judge the call with the iff-oracle.
fn fire_and_judge(d: &mut Driver, timer: &Timer<SimId>, stale: bool, p: &P, nth: u32) -> bool {
    let Timer::ChangeSuspectToDown { member_id, incarnation, .. } = timer else { unreachable!() };
    let pre = d.obs.clone();
    let slot = pre.slot(member_id.addr).cloned();
    let live = slot.as_ref().is_some_and(|m| m.id() == member_id && m.incarnation() == *incarnation && m.state() != State::Down);
    let expect_effect = !stale && live;
    let cfg = d.monitors.cfg.clone();
    let rec = d.step(Input::Timer(timer.clone()));
    if d.dead() {
        return expect_effect;
    }
    let post = d.obs.clone();
    let ctx = format!("delivery #{nth}, slot before: {:?}, stale epoch: {stale}", slot);
    if !expect_effect {
        if !rec.no_effects() || rec.result != Res::Ok || pre != post {
            let what: Vec<String> = rec.fx.iter().map(|e| match e {
                Effect::Send { to, data } => format!("Send({} to {to})", parse_datagram(CodecKind::Wire, data).map(|p| crate::codec::msg_kind(&p.header.message)).unwrap_or("?")),
                Effect::Sched { timer, .. } => format!("Sched({})", Input::Timer(timer.clone()).kind()),
                Effect::Notify(n) => format!("Notify({n:?})"),
            }).collect();
            fail(d, "C11/cancelled-timeout-had-effect", format!("{ctx}: result {:?}, effects {:?}, state changed: {}", rec.result, what, pre != post));
        }
        return false;
    }
    // must take effect, completely
    if rec.result != Res::Ok {
        fail(d, "C11/timeout-error", format!("{ctx}: result {:?}", rec.result));
    }
    let downs = rec.notes().filter(|n| matches!(n, OwnedNotification::MemberDown(x) if x == member_id)).count();
    if downs != 1 {
        fail(d, "C11/no-memberdown", format!("{ctx}: {downs} MemberDown({member_id}) notifications"));
    }
    match post.slot(member_id.addr) {
        Some(m) if m.id() == member_id && m.state() == State::Down => {}
        other => fail(d, "C11/not-down-after-timeout", format!("{ctx}: slot after: {other:?}")),
    }
    let want = enc_member(CodecKind::Wire, &Member::new(*member_id, *incarnation, State::Down));
    if !post.snap.updates.iter().any(|(dta, r)| *dta == want && *r == cfg.max_transmissions.get() as usize) {
        fail(d, "C11/down-not-gossiped", format!("{ctx}: Down({member_id},{incarnation}) not pending for dissemination"));
    }
    let removes = rec.scheds().filter(|(t, after)| matches!(t, Timer::RemoveDown(x) if x == member_id) && **after == cfg.remove_down_after).count();
    if removes != 1 {
        fail(d, "C11/forget-not-scheduled", format!("{ctx}: {removes} RemoveDown({member_id}) scheduled after remove_down_after"));
    }
    let tu: Vec<_> = rec.sends().filter(|(_, data)| parse_datagram(CodecKind::Wire, data).is_ok_and(|p| matches!(p.header.message, Message::TurnUndead))).collect();
    if cfg.notify_down_members {
        if tu.len() != 1 || tu[0].0 != member_id {
            fail(d, "C11/turnundead-missing", format!("{ctx}: notify_down_members is on, {} TurnUndead sent", tu.len()));
        }
    } else if !tu.is_empty() {
        fail(d, "C11/turnundead-unwanted", format!("{ctx}: notify_down_members is off, TurnUndead sent"));
    }
    // nothing else: sends only TurnUndead, timers only the forget timer, notifications only MemberDown (+ Idle when it was the last)
    let last = pre.active.len() == 1;
    for e in &rec.fx {
        let ok = match e {
            Effect::Send { data, .. } => parse_datagram(CodecKind::Wire, data).is_ok_and(|p| matches!(p.header.message, Message::TurnUndead)),
            Effect::Sched { timer, .. } => matches!(timer, Timer::RemoveDown(x) if x == member_id),
            Effect::Notify(OwnedNotification::MemberDown(x)) => x == member_id,
            Effect::Notify(OwnedNotification::Idle) => last,
            Effect::Notify(_) => false,
        };
        if !ok {
            fail(d, "C11/unexpected-extra-effect", format!("{ctx}: {e:?}"));
        }
    }
    if last && !rec.notes().any(|n| matches!(n, OwnedNotification::Idle)) {
        fail(d, "C11/no-idle-after-last-member-down", ctx.clone());
    }
    true
}

/// After Down: no update or header about that identity makes it active again; only the
/// forget-timer for exactly that identity removes it; afterwards it may rejoin.
fn finality(d: &mut Driver, p: &P, s: &mut Stream) {
    let id = B;
    let check = |d: &mut Driver, what: &str| {
        if d.dead() {
            return;
        }
        let active = d.obs.active.iter().any(|m| *m.id() == id);
        let slot = d.obs.slot(id.addr).cloned();
        let ok_slot = slot.as_ref().is_some_and(|m| *m.id() == id && m.state() == State::Down);
        if active || !ok_slot {
            fail(d, "C11/down-not-final", format!("after {what}: active={active} slot={slot:?}"));
        }
    };
    for _ in 0..6 {
        if d.dead() || d.has_violation("C11") {
            return;
        }
        let inc = *s.pick(&[0u16, p.inc, p.inc.saturating_add(1), u16::MAX]);
        let st = *s.pick(&[State::Alive, State::Suspect, State::Down]);
        match s.below(5) {
            0 => {
                d.step(Input::ApplyMany(vec![Member::new(id, inc, st)], s.chance(1, 2)));
                check(d, "apply_many about it");
            }
            1 => {
                d.deliver(id, inc, Message::Gossip, &[]);
                check(d, "a datagram from it");
            }
            2 => {
                d.deliver(id, inc, Message::Announce, &[]);
                check(d, "an Announce from it");
            }
            3 => {
                let sender = SimId::new(7, 1);
                d.deliver(sender, 0, Message::Feed, &[Member::new(id, inc, st)]);
                check(d, "a Feed listing it");
            }
            _ => {
                // forget-timers for other identities of that address change nothing
                let other = SimId::new(id.addr, if s.chance(1, 2) { id.gen + 1 } else { id.gen - 1 });
                let pre = d.obs.state.clone();
                d.step(Input::Timer(Timer::RemoveDown(other)));
                if d.obs.state != pre {
                    fail(d, "C11/forget-timer-wrong-identity", format!("RemoveDown({other}) changed the table"));
                }
                check(d, "a forget-timer for another identity");
            }
        }
    }
    if d.dead() || d.has_violation("C11") {
        return;
    }
    let rec = d.step(Input::Timer(Timer::RemoveDown(id)));
    if d.obs.slot(id.addr).is_some() || !rec.no_effects() {
        fail(d, "C11/forget-timer", format!("RemoveDown({id}): slot {:?}, {} effects", d.obs.slot(id.addr), rec.fx.len()));
    }
    let rec = d.step(Input::ApplyMany(vec![Member::new(id, 0, State::Alive)], true));
    let up = rec.notes().any(|n| matches!(n, OwnedNotification::MemberUp(x) if *x == id));
    if !up || !d.obs.active.iter().any(|m| *m.id() == id) {
        fail(d, "C11/cannot-rejoin-after-forgotten", format!("Alive({id}) after the forget-timer: MemberUp notified: {up}"));
    }
}

pub fn run_params(p: &P, case: &Case) -> RunOut {
    let mut d = Driver::new(setup_of(p));
    let mut members = vec![Member::new(B, p.inc, State::Alive)];
    if p.with_c {
        members.push(Member::new(C, 0, State::Alive));
    }
    d.step(Input::ApplyMany(members, true));
    let mut out = RunOut::default();
    let timer = suspect_b(&mut d, p.with_c);
    let Some(timer) = timer else {
        // the genuine path did not lead to a suspicion: that is a harness problem, not a verdict
        out.stats.inc("c11_setup_failed");
        out.violations = d.violations;
        return out;
    };
    let epochs_at_issue = d.epochs;
    change_epoch(&mut d, p);
    apply_interleaving(&mut d, p.interleaving, p);
    for x in &p.extra {
        apply_interleaving(&mut d, *x, p);
    }
    let stale = d.epochs != epochs_at_issue;
    let took = fire_and_judge(&mut d, &timer, stale, p, 1);
    out.stats.inc(if took { "c11_timeout_took_effect" } else { "c11_timeout_cancelled" });
    if stale {
        out.stats.inc("c11_stale_epoch_cases");
    }
    if p.twice && !d.dead() {
        fire_and_judge(&mut d, &timer, stale, p, 2);
    }
    if took && !d.dead() && !d.has_violation("C11") {
        let mut s = Stream::new(case.seed, "c11-finality");
        finality(&mut d, p, &mut s);
        out.stats.inc("c11_finality_sequences");
    }
    out.nontrivial = true;
    out.signature = d.sig.0;
    out.log_hash = d.log.0;
    out.stats.merge(&d.stats);
    out.violations = d.violations;
    out
}

fn table_len() -> u64 {
    (INTERLEAVINGS.len() * EPOCHS.len() * 2 * 2 * 2 * INCS.len() * 2 * 2) as u64
}

fn table_case(mut i: u64) -> P {
    let mut take = |n: u64| {
        let r = i % n;
        i /= n;
        r as usize
    };
    let interleaving = take(INTERLEAVINGS.len() as u64);
    let epoch = take(EPOCHS.len() as u64);
    let twice = take(2) == 1;
    let notify_down = take(2) == 1;
    let renewable = take(2) == 1;
    let inc = INCS[take(INCS.len() as u64)];
    let with_c = take(2) == 1;
    let rng_seed = 1 + take(2) as u64;
    P { interleaving, epoch, twice, notify_down, renewable, inc, with_c, rng_seed, extra: vec![] }
}

pub struct Table;
impl Scenario for Table {
    fn name(&self) -> &'static str {
        "timeout-table"
    }
    fn gen(&self, seed: u64, _tier: Tier, index: u64) -> Case {
        Case { property: "C11".into(), scenario: self.name().into(), seed, params: serde_json::to_value(table_case(index)).unwrap(), steps: vec![], explicit: false }
    }
    fn run(&self, case: &Case) -> RunOut {
        let p: P = serde_json::from_value(case.params.clone()).expect("C11 params");
        run_params(&p, case)
    }
    fn steps_minimisable(&self) -> bool {
        false
    }
    fn exhaustive_len(&self, _tier: Tier) -> Option<u64> {
        Some(table_len())
    }
    fn shrink(&self, case: &Case) -> Vec<Case> {
        let p: P = serde_json::from_value(case.params.clone()).unwrap();
        let mut v = Vec::new();
        let mut push = |q: P| v.push(Case { params: serde_json::to_value(q).unwrap(), ..case.clone() });
        if p.twice {
            push(P { twice: false, ..p.clone() });
        }
        if p.with_c {
            push(P { with_c: false, ..p.clone() });
        }
        if p.inc != 0 {
            push(P { inc: 0, ..p.clone() });
        }
        if p.renewable {
            push(P { renewable: false, ..p.clone() });
        }
        if p.epoch != 0 {
            push(P { epoch: 0, ..p.clone() });
        }
        if !p.extra.is_empty() {
            let mut q = p.clone();
            q.extra.pop();
            push(q);
        }
        v
    }
}

pub struct Random;
impl Scenario for Random {
    fn name(&self) -> &'static str {
        "timeout-random-interleavings"
    }
    fn gen(&self, seed: u64, _tier: Tier, _index: u64) -> Case {
        let mut s = Stream::new(seed, "c11-random");
        let n_extra = s.range(1, 4) as usize;
        let p = P {
            interleaving: s.below(INTERLEAVINGS.len() as u64) as usize,
            epoch: s.below(EPOCHS.len() as u64) as usize,
            twice: s.chance(1, 2),
            notify_down: s.chance(1, 2),
            renewable: s.chance(1, 2),
            inc: *s.pick(&[0u16, 1, 7, 300, u16::MAX - 2, u16::MAX - 1]),
            with_c: s.chance(2, 3),
            rng_seed: s.next(),
            extra: (0..n_extra).map(|_| s.below(INTERLEAVINGS.len() as u64) as usize).collect(),
        };
        Case { property: "C11".into(), scenario: self.name().into(), seed, params: serde_json::to_value(p).unwrap(), steps: vec![], explicit: false }
    }
    fn run(&self, case: &Case) -> RunOut {
        Table.run(case)
    }
    fn steps_minimisable(&self) -> bool {
        false
    }
    fn shrink(&self, case: &Case) -> Vec<Case> {
        Table.shrink(case)
    }
}

pub fn def() -> CheckDef {
    CheckDef {
        property: "C11",
        level: "fault_enumeration",
        rule: "complete product {12 interleavings} x {4 connection-epoch histories} x {timer delivered once/twice} x {notify_down_members} x {renewable} x {3 incarnations} x {with/without third member} x {2 RNG seeds}, each built through the genuine probe->suspect path of a real instance, plus random compositions of up to 5 interleavings; a case is non-trivial when the genuine ChangeSuspectToDown timer was obtained and fired; distinct = distinct abstracted event logs (call kind, result, message kinds sent, notification kinds)",
        assumptions: vec![
            "peers are scripted by the simulator (single real instance); timers are the genuine ones the instance scheduled".into(),
            "token currency is inferred publicly: #Idle + #Defunct + #Rejoin + #successful change_identity/reuse_down_identity since the timer was issued".into(),
            "hook snapshot is used to see the pending Down update and to compare whole states before/after a no-effect call".into(),
        ],
        real_components: "one real Foca instance (all of src/), WireCodec, SimHandler",
        stub_components: "peers B, C and later senders are scripted datagrams; no network, timers fired by the script",
        batches: vec![
            Batch { scenario: &Table, quick: 0, thorough: 0 },
            Batch { scenario: &Random, quick: 20_000, thorough: 1_000_000 },
            // the same iff-oracle as a monitor on every suspicion timeout (genuine, duplicated, stale, crafted)
            // delivered in the shared adversarial histories, the chaos pool and the exhaustive short histories
            Batch { scenario: &crate::checks::histchecks::H11, quick: 40_000, thorough: 3_000_000 },
            Batch { scenario: crate::checks::histchecks::chaos_for("C11"), quick: 6_000, thorough: 150_000 },
            Batch { scenario: crate::checks::histchecks::exhaustive_for("C11"), quick: 0, thorough: 0 },
        ],
        extra: None,
    }
}

pub fn _unused() -> serde_json::Value {
    json!(null)
}
