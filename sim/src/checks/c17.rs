//! C17 — deterministic, and rejected input leaves no trace. Twin runs: a base history H on one
//! instance, H with rejected inputs inserted on a twin; the base operations must be
//! indistinguishable.

use crate::codec::{build_datagram, enc_header, CodecKind};
use crate::frame::{Batch, Case, CheckDef, RunOut, Scenario, Tier, Violation};
use crate::hist::{gen_hp, Step, HP};
use crate::id::SimId;
use crate::node::{ErrKind, Input, Res};
use crate::prng::Stream;
use crate::script::Driver;
use foca::{Header, Member, Message, PeriodicParams, State, Timer};
use std::num::NonZeroUsize;
use std::time::Duration;

#[derive(Clone, Debug, serde::Serialize, serde::Deserialize)]
pub enum TwinStep {
    Base(Input),
    /// an input that must be rejected / ignored: (input, class)
    Reject(Input, String),
}

fn expected(class: &str) -> Res {
    match class {
        "oversize" => Res::Err(ErrKind::DataTooBig),
        "bad-header" | "bad-member-list" => Res::Err(ErrKind::Decode),
        "from-own-identity" | "from-own-address" => Res::Err(ErrKind::DataFromOurselves),
        "one-trailing-byte" | "announce-with-payload" => Res::Err(ErrKind::MalformedPacket),
        "other-destination" | "stale-timer" => Res::Ok,
        "reuse-when-not-defunct" => Res::Err(ErrKind::NotUndead),
        "same-identity" | "same-identity-other-value" => Res::Err(ErrKind::SameIdentity),
        "invalid-config" => Res::Err(ErrKind::InvalidConfig),
        "empty-broadcast" => Res::Err(ErrKind::MalformedPacket),
        "too-big-broadcast" => Res::Err(ErrKind::DataTooBig),
        _ => Res::Ok,
    }
}

pub const CLASSES: [&str; 16] = [
    "oversize",
    "bad-header",
    "bad-member-list",
    "from-own-identity",
    "from-own-address",
    "one-trailing-byte",
    "announce-with-payload",
    "other-destination",
    "stale-timer",
    "reuse-when-not-defunct",
    "same-identity",
    "invalid-config",
    "empty-broadcast",
    "too-big-broadcast",
    "other-destination-with-payload",
    "same-identity-other-value",
];

/// Build a rejected input of a random class for the instance in its current state.
fn gen_reject(d: &Driver, s: &mut Stream) -> Option<(Input, String)> {
    let codec = d.codec();
    let own = d.id();
    let cfg = &d.monitors.cfg;
    let mps = cfg.max_packet_size.get();
    let peer = d.obs.active.first().map(|m| *m.id()).unwrap_or(SimId::new(2, 10));
    let class = *s.pick(&CLASSES);
    let ups = [Member::new(SimId::new(3, 11), 2, State::Alive), Member::new(own, 0, State::Down), Member::new(peer, 9, State::Down)];
    let valid = |src: SimId, dst: SimId, m: Message<SimId>, with_updates: bool| {
        let h = Header { src, src_incarnation: 3, dst, message: m };
        build_datagram(codec, &h, if with_updates { Some(&ups[..]) } else { None }, &[])
    };
    let input = match class {
        "oversize" => {
            // even a perfectly valid datagram is refused when it exceeds the limit
            let mut v = valid(peer, own, Message::Gossip, true);
            while v.len() <= mps {
                v.extend_from_slice(&[0, 3, 9, 9, 9]);
            }
            if v.len() > 200_000 {
                return None;
            }
            Input::Data(v)
        }
        "bad-header" => {
            let v = valid(peer, own, Message::Gossip, true);
            let h = enc_header(codec, &Header { src: peer, src_incarnation: 3, dst: own, message: Message::Gossip });
            let cut = s.below(h.len() as u64) as usize;
            let mut c = crate::codec::AnyCodec::new(codec);
            let t = v[..cut].to_vec();
            let mut cur: &[u8] = &t;
            if foca::Codec::decode_header(&mut c, &mut cur).is_ok() {
                return None;
            }
            Input::Data(t)
        }
        "bad-member-list" => {
            // valid header, a count that promises more members than the datagram holds
            let mut v = valid(peer, own, Message::Ping(1), true);
            let h = enc_header(codec, &Header { src: peer, src_incarnation: 3, dst: own, message: Message::Ping(1) }).len();
            v[h] = 0;
            v[h + 1] = 200;
            if v.len() > mps {
                return None;
            }
            Input::Data(v)
        }
        "from-own-identity" => {
            let v = valid(own, own, Message::Gossip, true);
            if v.len() > mps {
                return None;
            }
            Input::Data(v)
        }
        "from-own-address" => {
            let v = valid(SimId::new(own.addr, own.gen + 3), own, Message::TurnUndead, false);
            Input::Data(v)
        }
        "one-trailing-byte" => {
            let mut v = valid(peer, own, Message::Gossip, false);
            v.push(s.below(256) as u8);
            Input::Data(v)
        }
        "announce-with-payload" => {
            let mut v = valid(peer, own, Message::Announce, false);
            v.extend_from_slice(&[0, 0]);
            Input::Data(v)
        }
        "other-destination" => Input::Data(valid(peer, SimId::new(own.addr, own.gen + 1), Message::TurnUndead, false)),
        "other-destination-with-payload" => {
            let v = valid(peer, SimId::new(7, 3), Message::Gossip, true);
            if v.len() > mps {
                return None;
            }
            Input::Data(v)
        }
        "stale-timer" => {
            let tok = d.obs.snap.timer_token.wrapping_sub(1 + s.below(3) as u8);
            let t = match s.below(6) {
                0 => Timer::ProbeRandomMember(tok),
                1 => Timer::SendIndirectProbe { probed_id: d.obs.snap.probe_target.as_ref().map(|m| *m.id()).unwrap_or(peer), token: tok },
                2 => Timer::ChangeSuspectToDown { member_id: peer, incarnation: d.obs.slot(peer.addr).map(|m| m.incarnation()).unwrap_or(0), token: tok },
                3 => Timer::PeriodicAnnounce(tok),
                4 => Timer::PeriodicAnnounceDown(tok),
                _ => Timer::PeriodicGossip(tok),
            };
            // a genuine pending timer with that token would be consumed by delivering it: avoid
            if d.pending.iter().any(|(p, _, _)| *p == t) {
                return None;
            }
            Input::Timer(t)
        }
        "reuse-when-not-defunct" => {
            if d.obs.undead() {
                return None;
            }
            Input::ReuseDown
        }
        "same-identity" => Input::ChangeIdentity(own),
        // an equal identity value that differs in what equality does not cover (here: it cannot renew itself)
        "same-identity-other-value" => Input::ChangeIdentity(own.with_shade(1)),
        "invalid-config" => {
            let mut c = cfg.clone();
            match s.below(5) {
                0 => c.probe_period += Duration::from_millis(1),
                1 => c.probe_rtt += Duration::from_millis(1),
                2 if c.periodic_announce.is_none() => c.periodic_announce = Some(PeriodicParams { frequency: Duration::from_secs(1), num_members: NonZeroUsize::new(1).unwrap() }),
                3 if c.periodic_gossip.is_none() => c.periodic_gossip = Some(PeriodicParams { frequency: Duration::from_secs(1), num_members: NonZeroUsize::new(1).unwrap() }),
                4 if c.periodic_announce_to_down_members.is_none() => c.periodic_announce_to_down_members = Some(PeriodicParams { frequency: Duration::from_secs(1), num_members: NonZeroUsize::new(1).unwrap() }),
                _ => c.probe_period += Duration::from_millis(7),
            }
            Input::SetConfig(c)
        }
        "empty-broadcast" => Input::AddBroadcast(vec![]),
        "too-big-broadcast" => {
            if mps > 100_000 {
                return None;
            }
            Input::AddBroadcast(vec![1; mps + 1 + s.below(3) as usize])
        }
        _ => return None,
    };
    Some((input, class.to_string()))
}

fn same_call(a: &crate::node::CallRec, b: &crate::node::CallRec) -> bool {
    a.result == b.result && a.fx == b.fx && a.hcalls == b.hcalls
}

pub fn run_twin(hp: &HP, seed: u64, steps: Option<Vec<TwinStep>>) -> (RunOut, Vec<TwinStep>) {
    let mut out = RunOut::default();
    // base history: generated on a throw-away instance (fresh case) or given
    let base: Vec<Input> = match &steps {
        Some(st) => st.iter().filter_map(|x| if let TwinStep::Base(i) = x { Some(i.clone()) } else { None }).collect(),
        None => crate::hist::run_hist_history(hp, seed),
    };
    let mut d1 = Driver::new(hp.setup.clone());
    let mut d2 = Driver::new(hp.setup.clone());
    let mut d3 = Driver::new(hp.setup.clone());
    let mut s = Stream::new(seed, "c17-inserts");
    let mut vs: Vec<Violation> = Vec::new();
    let mut done: Vec<TwinStep> = Vec::new();
    let given: Option<Vec<TwinStep>> = steps;
    let n_inserts = s.range(1, 20) as usize;
    let mut insert_at: Vec<usize> = (0..n_inserts).map(|_| s.below(base.len() as u64 + 1) as usize).collect();
    insert_at.sort();
    let mut apply_reject = |d2: &mut Driver, input: Input, class: &str, vs: &mut Vec<Violation>, out: &mut RunOut| {
        let pre = d2.obs.clone();
        let rec = d2.step(input);
        out.stats.inc(&format!("c17_rejected_{class}"));
        let want = expected(class);
        if rec.result != want {
            vs.push(Violation { property: "C17", tag: "C17/rejected-input-result".into(), detail: format!("{class}: returned {:?}, documented {:?}", rec.result, want), at: d2.history.len() as u64 });
        }
        if !rec.fx.is_empty() || !rec.hcalls.is_empty() {
            vs.push(Violation { property: "C17", tag: "C17/rejected-input-had-effects".into(), detail: format!("{class}: {} effect(s), {} handler call(s)", rec.fx.len(), rec.hcalls.len()), at: d2.history.len() as u64 });
        }
        if pre != d2.obs {
            vs.push(Violation { property: "C17", tag: "C17/rejected-input-changed-state".into(), detail: format!("{class}: public state / snapshot differs after the call"), at: d2.history.len() as u64 });
        }
    };
    match given {
        Some(st) => {
            for x in st {
                if d1.dead() || d2.dead() {
                    break;
                }
                match &x {
                    TwinStep::Base(i) => {
                        let a = d1.step(i.clone());
                        let b = d2.step(i.clone());
                        let c = d3.step(i.clone());
                        if !same_call(&a, &b) {
                            vs.push(Violation { property: "C17", tag: "C17/base-operation-differs-after-rejected-input".into(), detail: format!("{}: {:?}/{} effects vs {:?}/{} effects", i.kind(), a.result, a.fx.len(), b.result, b.fx.len()), at: d1.history.len() as u64 });
                        }
                        if !same_call(&a, &c) {
                            vs.push(Violation { property: "C17", tag: "C17/nondeterministic".into(), detail: format!("{}: two runs of the same history differ", i.kind()), at: d1.history.len() as u64 });
                        }
                    }
                    TwinStep::Reject(i, class) => apply_reject(&mut d2, i.clone(), class, &mut vs, &mut out),
                }
                done.push(x);
                if !vs.is_empty() {
                    break;
                }
            }
        }
        None => {
            let mut ins = 0usize;
            for (k, i) in base.iter().enumerate() {
                while ins < insert_at.len() && insert_at[ins] <= k {
                    ins += 1;
                    if let Some((input, class)) = gen_reject(&d2, &mut s) {
                        apply_reject(&mut d2, input.clone(), &class, &mut vs, &mut out);
                        done.push(TwinStep::Reject(input, class));
                    }
                }
                if d1.dead() || d2.dead() || !vs.is_empty() {
                    break;
                }
                let a = d1.step(i.clone());
                let b = d2.step(i.clone());
                let c = d3.step(i.clone());
                done.push(TwinStep::Base(i.clone()));
                if !same_call(&a, &b) {
                    vs.push(Violation { property: "C17", tag: "C17/base-operation-differs-after-rejected-input".into(), detail: format!("{}: {:?}/{} effects vs {:?}/{} effects", i.kind(), a.result, a.fx.len(), b.result, b.fx.len()), at: d1.history.len() as u64 });
                }
                if !same_call(&a, &c) {
                    vs.push(Violation { property: "C17", tag: "C17/nondeterministic".into(), detail: format!("{}: two runs of the same history differ", i.kind()), at: d1.history.len() as u64 });
                }
            }
        }
    }
    if vs.is_empty() && !d1.dead() && !d2.dead() {
        if d1.obs != d2.obs {
            vs.push(Violation { property: "C17", tag: "C17/final-state-differs".into(), detail: "final public state of the twin differs".into(), at: d1.history.len() as u64 });
        }
        if d1.obs != d3.obs || d1.log.0 != d3.log.0 {
            vs.push(Violation { property: "C17", tag: "C17/nondeterministic".into(), detail: "two runs of the same history end differently".into(), at: d1.history.len() as u64 });
        }
    }
    let rejected = done.iter().filter(|x| matches!(x, TwinStep::Reject(..))).count();
    out.nontrivial = rejected > 0 && !base.is_empty();
    out.stats.add("c17_rejected_inputs_inserted", rejected as u64);
    out.stats.add("c17_base_operations", base.len() as u64);
    out.signature = crate::prng::mix2(d1.sig.0, d2.sig.0);
    out.log_hash = d2.log.0;
    out.stats.merge(&d2.stats);
    out.stats.add("events", d2.history.len() as u64);
    for d in [&d1, &d2] {
        vs.extend(d.violations.iter().filter(|v| v.property != "C17").cloned());
    }
    out.violations = vs;
    (out, done)
}

pub struct Twin;
impl Scenario for Twin {
    fn name(&self) -> &'static str {
        "twin-histories"
    }
    fn gen(&self, seed: u64, tier: Tier, _i: u64) -> Case {
        let hp = gen_hp(seed, "C17", tier);
        Case { property: "C17".into(), scenario: self.name().into(), seed, params: serde_json::to_value(hp).unwrap(), steps: vec![], explicit: false }
    }
    fn run(&self, case: &Case) -> RunOut {
        let hp: HP = serde_json::from_value(case.params.clone()).expect("C17 params");
        let steps: Option<Vec<TwinStep>> = if case.explicit { Some(case.steps.iter().map(|v| serde_json::from_value(v.clone()).expect("twin step")).collect()) } else { None };
        let explicit = steps.is_some();
        let (mut out, done) = run_twin(&hp, case.seed, steps);
        if !explicit && !out.violations.is_empty() {
            let mut c = case.clone();
            c.steps = done.iter().map(|s| serde_json::to_value(s).unwrap()).collect();
            c.explicit = true;
            out.concrete = Some(c);
        }
        out
    }
    fn concretise(&self, case: &Case) -> Case {
        if case.explicit {
            return case.clone();
        }
        let hp: HP = serde_json::from_value(case.params.clone()).expect("C17 params");
        let (_, done) = run_twin(&hp, case.seed, None);
        let mut c = case.clone();
        c.steps = done.iter().map(|s| serde_json::to_value(s).unwrap()).collect();
        c.explicit = true;
        c
    }
}

pub fn def() -> CheckDef {
    let _ = Step::NextTimer;
    CheckDef {
        property: "C17",
        level: "exploration",
        rule: "seeded twin runs: a base history H (adversarial single-instance generator: datagrams, genuine/crafted timers, API calls) is executed on instance I1; on a twin I2 with the same seed and configuration the same H is executed with 1..20 rejected inputs inserted at random positions, each built for I2's state at that point from 15 classes (oversize, undecodable header, truncated member list, own identity / own address as source, one trailing byte, Announce with payload, other destination (header-only and with payload), stale-epoch timer of every kind, reuse_down_identity when not defunct, change_identity(current), invalid set_config, empty / too big add_broadcast); oracles: each inserted input returns its documented result, produces no effect, no handler call and no state change (public state + hook snapshot); every base operation has identical result, effects and handler calls in both runs; final states identical; a third instance I3 re-runs H alone (determinism); non-trivial = at least one rejected input was inserted; distinct = pair of abstracted event logs",
        assumptions: vec![
            "the hook snapshot is used to craft stale tokens and to compare whole states".into(),
            "rejected inputs that happen to be valid in the current state (e.g. a truncation that still decodes) are skipped by construction".into(),
        ],
        real_components: "three real Foca instances per run (I1, twin I2, determinism witness I3)",
        stub_components: "peers, timers and API caller are the simulator's generator",
        batches: vec![
            Batch { scenario: &Twin, quick: 50_000, thorough: 2_500_000 },
            // the single-run part (a call failing with a "does not affect state" error emits nothing and leaves
            // the observable state untouched) as a monitor on the shared histories, chaos pool and exhaustive batches
            Batch { scenario: &crate::checks::histchecks::H17, quick: 40_000, thorough: 3_000_000 },
            Batch { scenario: crate::checks::histchecks::chaos_for("C17"), quick: 6_000, thorough: 150_000 },
            Batch { scenario: crate::checks::histchecks::exhaustive_for("C17"), quick: 0, thorough: 0 },
        ],
        extra: None,
    }
}
