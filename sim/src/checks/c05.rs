//! C05 — auto-rejoin: a healed partition converges back without hand-holding.

use crate::codec::CodecKind;
use crate::frame::{Batch, Case, CheckDef, RunOut, Scenario, Tier, Violation};
use crate::handler::HandlerCfg;
use crate::id::{Policy, RenewMode};
use crate::node::Input;
use crate::prng::Stream;
use crate::world::{cluster_config, NetCfg, World, WorldCfg, MS};
use foca::{Member, OwnedNotification, PeriodicParams, State};
use std::num::NonZeroUsize;
use std::time::Duration;

#[derive(Clone, Debug, serde::Serialize, serde::Deserialize)]
pub struct P {
    pub wc: WorldCfg,
    pub start_ns: Vec<u64>,
    /// "split" (two sides), "isolate-both", "isolate-in", "isolate-out", "stall"
    pub shape: String,
    /// members of side X (split) or the single affected member
    pub side: Vec<u16>,
    pub cut_ns: u64,
    pub heal_ns: u64,
    /// a second partition of the same shape: (cut, heal); remove_down_after is then chosen so that the forget
    /// timers of the first partition fire while the second one is in place
    #[serde(default)]
    pub second: Option<(u64, u64)>,
}

pub fn gen_params(seed: u64, tier: Tier) -> P {
    let mut s = Stream::new(seed, "c05-params");
    let nmax = match tier {
        Tier::Quick => 8,
        Tier::Thorough => 16,
    };
    let n = s.range(3, nmax) as usize;
    let rtt = s.range(20, 300);
    let lmax = s.range(1, (rtt - 1) / 4);
    let lmin = s.range(0, lmax);
    let period = (rtt * s.range(150, 500)) / 100 + 1;
    let suspect = s.range(period, 3 * period);
    let k = s.range(1, 3) as usize;
    let mut cfg = cluster_config(period, rtt, suspect, k, s.range(2, 10) as u8, 1400);
    cfg.notify_down_members = true;
    let announce = s.range(period, 4 * period);
    cfg.periodic_announce_to_down_members = Some(PeriodicParams { frequency: Duration::from_millis(announce), num_members: NonZeroUsize::new(s.range(1, 3) as usize).unwrap() });
    if s.chance(1, 2) {
        cfg.periodic_gossip = Some(PeriodicParams { frequency: Duration::from_millis(s.range(period / 4 + 1, 2 * period)), num_members: NonZeroUsize::new(s.range(1, 3) as usize).unwrap() });
    }
    if s.chance(1, 3) {
        cfg.periodic_announce = Some(PeriodicParams { frequency: Duration::from_millis(s.range(period, 5 * period)), num_members: NonZeroUsize::new(1).unwrap() });
    }
    let policy = Policy { renew: RenewMode::Next, mask: u64::MAX, var_ids: s.chance(1, 4) };
    let wc = WorldCfg { n, cfg, codec: *s.pick(&[CodecKind::Wire, CodecKind::Wire, CodecKind::Bincode, CodecKind::Postcard]), policy, hcfg: HandlerCfg::default_cfg(), net: NetCfg::clean(lmin * MS, lmax * MS), gen0: 1 };
    let start_ns: Vec<u64> = (0..n).map(|_| s.range(0, period) * MS).collect();
    let shape = *s.pick(&["split", "split", "split", "isolate-both", "isolate-in", "isolate-out", "stall"]);
    let mut nodes: Vec<u16> = (1..=n as u16).collect();
    s.shuffle(&mut nodes);
    let side: Vec<u16> = if shape == "split" {
        // every split shape (a, n-a) with a side of at least two members
        let a = s.range(1, (n - 1) as u64) as usize;
        let a = if a == 1 && n - a < 2 { 2.min(n - 1) } else { a };
        nodes[..a].to_vec()
    } else {
        nodes[..1].to_vec()
    };
    let cut = period + s.range(0, 3 * n as u64 * period);
    let min_dur = (2 * n as u64 + 2) * period + suspect;
    let dur = min_dur + s.range(0, 6 * period) + 2 * period;
    let mut p = P { wc, start_ns, shape: shape.to_string(), side, cut_ns: cut * MS, heal_ns: (cut + dur) * MS, second: None };
    if s.chance(1, 4) {
        // the same members are cut off again once the first heal has converged (at the latest `bound` after it);
        // Down records of the first round are forgotten (remove_down_after) in the middle of the second round
        let bound_ms = (n as u64 + 8) * announce + (2 * n as u64 + 1) * period;
        let rda = dur + bound_ms + 2 * period + min_dur;
        p.wc.cfg.remove_down_after = Duration::from_millis(rda);
        let cut2 = cut + rda - min_dur;
        let dur2 = 2 * min_dur + 2 * period + s.range(0, 3 * period);
        p.second = Some((cut2 * MS, (cut2 + dur2) * MS));
    }
    p
}

pub fn execute(p: &P, seed: u64) -> RunOut {
    let mut out = RunOut::default();
    let mut w = World::new(p.wc.clone(), seed);
    let n = p.wc.n;
    for a in 1..=n as u16 {
        w.spawn(a, p.wc.gen0);
    }
    for (i, t) in p.start_ns.iter().enumerate() {
        w.schedule_op(*t, i);
    }
    const OP_CUT: usize = 1000;
    const OP_HEAL: usize = 1001;
    w.schedule_op(p.cut_ns, OP_CUT);
    w.schedule_op(p.heal_ns, OP_HEAL);
    let mut round = 1;
    // (a, b): a notified MemberDown for an identity of address b since the current cut
    let mut downs_since_cut: std::collections::BTreeSet<(u16, u16)> = Default::default();
    let period = p.wc.cfg.probe_period.as_nanos() as u64;
    let announce = p.wc.cfg.periodic_announce_to_down_members.as_ref().unwrap().frequency.as_nanos() as u64;
    let bound = (n as u64 + 8) * announce + (2 * n as u64 + 1) * period;
    let others: Vec<u16> = (1..=n as u16).filter(|a| !p.side.contains(a)).collect();
    let mut vs: Vec<Violation> = Vec::new();
    let mut healed_at: Option<u64> = None;
    let mut converged_at: Option<u64> = None;
    let mut precondition = false;
    let mut notes_seen = 0usize;
    let mut errs_seen = 0usize;
    loop {
        let Some(t) = w.peek_time() else { break };
        if let Some(th) = healed_at {
            if t > th + bound + period {
                break;
            }
        }
        match w.step() {
            Err(op) if op == OP_CUT => {
                downs_since_cut.clear();
                match p.shape.as_str() {
                "split" => w.partition(&[p.side.clone(), others.clone()]),
                "isolate-both" => w.partition(&[p.side.clone(), others.clone()]),
                "isolate-in" => {
                    let m = World::idx(p.side[0]);
                    for s in 0..n {
                        if s != m {
                            w.blocked[s][m] = true;
                        }
                    }
                    w.stats.inc("fault_partition_asymmetric");
                }
                "isolate-out" => {
                    let m = World::idx(p.side[0]);
                    for d in 0..n {
                        if d != m {
                            w.blocked[m][d] = true;
                        }
                    }
                    w.stats.inc("fault_partition_asymmetric");
                }
                _ => {
                    let m = World::idx(p.side[0]);
                    w.stalled_until[m] = if round == 1 { p.heal_ns } else { p.second.map(|x| x.1).unwrap_or(p.heal_ns) };
                    w.stats.inc("fault_stall");
                }
                }
            }
            Err(op) if op == OP_HEAL => {
                // did the fault do what the property's premise says?
                // (judged on the MemberDown notifications since the cut, not on the tables: a table that has
                // already forgotten the Down record must not turn the run into a discarded one)
                let down_at = |_w: &World, a: u16, b: u16| downs_since_cut.contains(&(a, b));
                precondition = match p.shape.as_str() {
                    "split" => p.side.iter().all(|x| others.iter().all(|y| down_at(&w, *x, *y) && down_at(&w, *y, *x))),
                    _ => others.iter().all(|y| down_at(&w, *y, p.side[0])),
                };
                w.heal();
                healed_at = Some(w.now);
                if !precondition {
                    break;
                }
            }
            Err(op) => {
                let a = (op + 1) as u16;
                let all: Vec<Member<_>> = (1..=n as u16).filter(|b| *b != a).map(|b| Member::alive(w.id_of(b))).collect();
                w.call(a, Input::ApplyMany(all, false));
            }
            Ok(None) => break,
            Ok(Some(_)) => {}
        }
        while notes_seen < w.notes.len() {
            let (t, a, note) = w.notes[notes_seen].clone();
            notes_seen += 1;
            match &note {
                OwnedNotification::Defunct => vs.push(Violation { property: "C05", tag: "C05/defunct".into(), detail: format!("node {a} (renewable identity) notified Defunct at t={}ms", t / MS), at: t }),
                OwnedNotification::Rejoin(_) => out.stats.inc("c05_rejoins"),
                OwnedNotification::MemberDown(x) => {
                    downs_since_cut.insert((a, x.addr));
                }
                _ => {}
            }
        }
        while errs_seen < w.errors.len() {
            let (t, a, k, e) = w.errors[errs_seen];
            errs_seen += 1;
            vs.push(Violation { property: "C05", tag: "C05/error".into(), detail: format!("node {a}: {k} returned {e:?} at t={}ms", t / MS), at: t });
        }
        if !vs.is_empty() {
            break;
        }
        if healed_at.is_some() && converged_at.is_none() && w.converged() {
            let all_active = w.live_addrs().iter().all(|a| w.proc(*a).unwrap().obs.connected());
            if all_active {
                converged_at = Some(w.now);
                let th = healed_at.unwrap();
                out.stats.max("c05_convergence_permille_of_bound", (w.now - th) * 1000 / bound);
                out.stats.max("c05_convergence_announce_periods", (w.now - th) / announce);
                match p.second {
                    Some((cut2, heal2)) if round == 1 && cut2 > w.now => {
                        // second round: same cut, later
                        round = 2;
                        out.stats.inc("c05_second_partition");
                        healed_at = None;
                        converged_at = None;
                        precondition = false;
                        w.schedule_op(cut2, OP_CUT);
                        w.schedule_op(heal2, OP_HEAL);
                    }
                    _ => break,
                }
            }
        }
    }
    out.stats.inc(&format!("c05_shape_{}", p.shape));
    if healed_at.is_some() && !precondition && vs.is_empty() {
        out.stats.inc("c05_discarded_precondition_not_met");
    } else if let (Some(th), true) = (healed_at, vs.is_empty()) {
        out.nontrivial = true;
        match converged_at {
            Some(_) => {}
            None => {
                let mut detail = String::new();
                for a in w.live_addrs() {
                    let view = w.view(a);
                    for b in w.live_addrs() {
                        if a != b && !view.contains(&w.id_of(b)) && detail.is_empty() {
                            detail = format!("node {a} (now {}) holds {:?} for node {b} (now {})", w.id_of(a), w.proc(a).unwrap().obs.slot(b), w.id_of(b));
                        }
                    }
                }
                let conns: Vec<String> = w.live_addrs().iter().map(|a| {
                    let o = &w.proc(*a).unwrap().obs;
                    format!("{}:{}:{}members", o.id, ["disconnected", "connected", "defunct"][o.snap.connection_state as usize], o.num_members)
                }).collect();
                let silent = w.peek_time().is_none();
                let all_idle = w.live_addrs().iter().all(|a| {
                    let o = &w.proc(*a).unwrap().obs;
                    o.num_members == 0 && o.snap.connection_state == 0
                });
                if all_idle {
                    out.stats.max("c05_every_instance_idle_max_n", n as u64);
                    out.stats.inc(&format!("c05_every_instance_idle_{}", p.shape));
                }
                // K-C05-1: two renewed members hold each other's superseded identity as Down
                let live = w.live_addrs();
                let holds_stale_down = |a: u16, b: u16| w.proc(a).unwrap().obs.slot(b).is_some_and(|m| m.state() == State::Down && w.id_of(b).gen > m.id().gen);
                let mutually_superseded = live.iter().any(|a| live.iter().any(|b| a != b && holds_stale_down(*a, *b) && holds_stale_down(*b, *a)));
                let tag = if all_idle && mutually_superseded { "C05/no-convergence-after-heal:every-instance-idle:mutually-superseded" } else if all_idle { "C05/no-convergence-after-heal:every-instance-idle" } else if silent { "C05/cluster-fell-silent-after-heal" } else { "C05/no-convergence-after-heal" };
                vs.push(Violation { property: "C05", tag: tag.into(), detail: format!("{} (round {round}): {} announce-to-down periods + {} probe periods after the heal (stopped at t={}ms, healed at t={}ms, event queue empty: {silent}): {detail}; instances: {:?}", p.shape, n + 8, 2 * n + 1, w.now / MS, th / MS, conns), at: w.now });
            }
        }
    }
    out.signature = w.sig.0;
    out.log_hash = w.log.0;
    out.sim_ns = w.now;
    out.stats.merge(&w.stats);
    out.stats.add("events", w.events);
    vs.extend(w.violations.clone());
    out.violations = vs;
    out
}

pub struct Heal;
impl Scenario for Heal {
    fn name(&self) -> &'static str {
        "partition-and-heal"
    }
    fn gen(&self, seed: u64, tier: Tier, _i: u64) -> Case {
        Case { property: "C05".into(), scenario: self.name().into(), seed, params: serde_json::to_value(gen_params(seed, tier)).unwrap(), steps: vec![], explicit: false }
    }
    fn run(&self, case: &Case) -> RunOut {
        let p: P = serde_json::from_value(case.params.clone()).expect("C05 params");
        execute(&p, case.seed)
    }
    fn steps_minimisable(&self) -> bool {
        false
    }
    fn shrink(&self, case: &Case) -> Vec<Case> {
        let p: P = serde_json::from_value(case.params.clone()).unwrap();
        let mut v = Vec::new();
        let mut push = |q: P| v.push(Case { params: serde_json::to_value(q).unwrap(), ..case.clone() });
        if p.wc.n > 3 && !p.side.contains(&(p.wc.n as u16)) && p.wc.n - 1 - p.side.len() >= 1 {
            let mut q = p.clone();
            q.wc.n -= 1;
            q.start_ns.pop();
            push(q);
        }
        if p.wc.cfg.periodic_gossip.is_some() {
            let mut q = p.clone();
            q.wc.cfg.periodic_gossip = None;
            push(q);
        }
        if p.wc.cfg.periodic_announce.is_some() {
            let mut q = p.clone();
            q.wc.cfg.periodic_announce = None;
            push(q);
        }
        if p.wc.codec != CodecKind::Wire {
            let mut q = p.clone();
            q.wc.codec = CodecKind::Wire;
            push(q);
        }
        if p.second.is_some() {
            let mut q = p.clone();
            q.second = None;
            push(q);
        }
        v
    }
}

pub fn def() -> CheckDef {
    CheckDef {
        property: "C05",
        level: "exploration",
        rule: "seeded clusters of 3..=N (quick 8, thorough 16) renewable instances with notify_down_members and periodic_announce_to_down_members (1-3 targets): every two-sided split shape with a side of >= 2, or one member isolated (both directions / inbound only / outbound only) or stalled; cut at a random instant, held for >= (2n+2) probe periods + suspect_to_down_after, healed with datagrams in flight; runs whose fault did not make the sides declare each other Down are discarded and counted; non-trivial = precondition met; distinct = abstracted event log of the cluster. Second batch (faults-then-quiet): a formed cluster under a random subset of {latency beyond probe_rtt, loss, duplication, partitions, crash/restart with or without snapshot, stalls, user identity changes, custom broadcasts} for 10..60 probe periods; then the faults stop (network within the premise, crashed processes restarted, idle instances retry their bootstrap announce) and every live instance must list every other one's current identity within the same bound + 2 suspect_to_down_after",
        assumptions: vec![
            "outside the partition the premise of C02 holds (latency < probe_rtt/4, exact timers, no loss)".into(),
            "bound after heal: (n+8) announce-to-down periods + (2n+1) probe periods; empirical, worst observation reported as c05_convergence_permille_of_bound".into(),
            "remove_down_after = 24h (Down records outlive the partition)".into(),
            "faults-then-quiet: max_packet_size 1400 and periodic announce on (otherwise discovery of restarted members is a matter of luck: K-C02-1); no corruption (it fabricates identities); leave_cluster is not a fault to recover from".into(),
        ],
        real_components: "n real Foca instances (all of src/), the run's codec; all monitors attached to every node",
        stub_components: "network (latency, directional partition matrix, stall) and clock are the simulator",
        batches: vec![Batch { scenario: &Heal, quick: 8_000, thorough: 300_000 }, Batch { scenario: &Quiesce, quick: 3_000, thorough: 150_000 }],
        extra: None,
    }
}

// ---------------------------------------------------------------------------------------------
// Bounded liveness after arbitrary faults: chaos for a while, then the faults stop.

use crate::chaos::{gen_case as chaos_case, Op as ChaosOp, P as ChaosP};

#[derive(Clone, Debug, serde::Serialize, serde::Deserialize)]
pub struct QP {
    pub chaos: ChaosP,
    pub quiet_periods: u64,
}

/// Faults of every kind for a while (loss, duplication, partitions, crash/restart, stalls, skew),
/// then a quiet network: every live instance that is idle re-announces to a live member (what any
/// agent does), and the cluster must converge within the bound.
pub struct Quiesce;
impl Scenario for Quiesce {
    fn name(&self) -> &'static str {
        "faults-then-quiet"
    }
    fn gen(&self, seed: u64, tier: Tier, _i: u64) -> Case {
        let (mut p, mut ops) = chaos_case(seed, tier);
        // the auto-rejoin configuration of the property
        p.wc.policy = Policy { renew: RenewMode::Next, mask: u64::MAX, var_ids: p.wc.policy.var_ids };
        p.wc.cfg.notify_down_members = true;
        let period = p.wc.cfg.probe_period.as_millis() as u64;
        let mut s = Stream::new(seed, "c05-quiesce");
        if p.wc.cfg.periodic_announce_to_down_members.is_none() {
            p.wc.cfg.periodic_announce_to_down_members = Some(PeriodicParams { frequency: Duration::from_millis(s.range(period, 4 * period)), num_members: NonZeroUsize::new(s.range(1, 3) as usize).unwrap() });
        }
        p.wc.cfg.remove_down_after = Duration::from_secs(86_400);
        // discovery of restarted members must not depend on luck (K-C02-1): packets large enough to
        // feed the cluster and periodic announce on
        p.wc.cfg.max_packet_size = NonZeroUsize::new(1400).unwrap();
        if p.wc.cfg.periodic_announce.is_none() {
            p.wc.cfg.periodic_announce = Some(PeriodicParams { frequency: Duration::from_millis(s.range(period, 4 * period)), num_members: NonZeroUsize::new(1).unwrap() });
        }
        p.wc.net.corrupt_ppm = 0; // corruption fabricates identities (see DESIGN 11.2); not part of this premise
        // a datagram held back or replayed beyond the end of the fault phase would be a fault inside the quiet phase
        p.wc.net.replay_ppm = 0;
        p.wc.net.spike_ppm = 0;
        // leaving is a deliberate, permanent departure: not a fault to recover from
        // the cluster is formed before the faults start (every node restored with the full membership)
        ops.retain(|(_, o)| !matches!(o, ChaosOp::Leave { .. } | ChaosOp::Skew { .. } | ChaosOp::Announce { .. }));
        let q = QP { chaos: p, quiet_periods: 0 };
        Case { property: "C05".into(), scenario: self.name().into(), seed, params: serde_json::to_value(q).unwrap(), steps: ops.iter().map(|o| serde_json::to_value(o).unwrap()).collect(), explicit: true }
    }
    fn run(&self, case: &Case) -> RunOut {
        let q: QP = serde_json::from_value(case.params.clone()).expect("C05 quiesce params");
        let ops: Vec<(u64, ChaosOp)> = case.steps.iter().map(|v| serde_json::from_value(v.clone()).expect("chaos op")).collect();
        let p = &q.chaos;
        let mut out = RunOut::default();
        let mut w = World::new(p.wc.clone(), case.seed);
        let n = p.wc.n;
        for a in 1..=n as u16 {
            w.spawn(a, p.wc.gen0);
        }
        for (i, (t, _)) in ops.iter().enumerate() {
            w.schedule_op(*t * MS, i);
        }
        w.bootstrap_full();
        const OP_QUIET: usize = 1_000_000;
        const OP_RETRY: usize = 1_000_001;
        let retry_every = p.wc.cfg.periodic_announce.as_ref().map(|x| x.frequency.as_nanos() as u64).unwrap_or(0).max(2 * p.wc.cfg.probe_period.as_nanos() as u64);
        let mut retries = 0usize;
        fn bootstrap_retry(w: &mut World, out: &mut RunOut, round: usize) {
            let live = w.live_addrs();
            for a in &live {
                let o = &w.proc(*a).unwrap().obs;
                if o.num_members == 0 || !o.connected() {
                    let others: Vec<u16> = live.iter().filter(|b| *b != a).copied().collect();
                    if !others.is_empty() {
                        let dst = w.id_of(others[round % others.len()]);
                        w.call(*a, Input::Announce(dst));
                        out.stats.inc("c05_quiesce_bootstrap_retry");
                    }
                }
            }
        }
        let mut t_quiet = (p.duration_ms + 1) * MS;
        w.schedule_op(t_quiet, OP_QUIET);
        let period = p.wc.cfg.probe_period.as_nanos() as u64;
        let suspect = p.wc.cfg.suspect_to_down_after.as_nanos() as u64;
        let announce = p.wc.cfg.periodic_announce_to_down_members.as_ref().unwrap().frequency.as_nanos() as u64;
        let announce = announce.max(p.wc.cfg.periodic_announce.as_ref().map(|x| x.frequency.as_nanos() as u64).unwrap_or(0));
        let bound = (n as u64 + 8) * announce + (2 * n as u64 + 1) * period + 2 * suspect;
        let mut saved: std::collections::BTreeMap<u16, Vec<Member<crate::id::SimId>>> = Default::default();
        let mut quiet = false;
        let mut converged_at = None;
        let mut vs: Vec<Violation> = Vec::new();
        let mut notes_seen = 0;
        while let Some(t) = w.peek_time() {
            if quiet && t > t_quiet + bound + period {
                break;
            }
            match w.step() {
                Err(OP_QUIET) => {
                    quiet = true;
                    w.heal();
                    w.wc.net.drop_ppm = 0;
                    w.wc.net.dup_ppm = 0;
                    w.wc.net.misdeliver_ppm = 0;
                    // the network is healthy again: latency back within the premise (< probe_rtt / 4)
                    let healthy = (p.wc.cfg.probe_rtt.as_nanos() as u64 / 4).saturating_sub(1).max(1);
                    w.wc.net.lat_max_ns = w.wc.net.lat_max_ns.min(healthy);
                    w.wc.net.lat_min_ns = w.wc.net.lat_min_ns.min(w.wc.net.lat_max_ns);
                    // stalls in progress run out on their own (cutting one short would deliver the stalled
                    // node's later timers before its deferred ones: a reordering no runtime produces); the
                    // quiet period counts from the end of the last one
                    for i in 0..n {
                        t_quiet = t_quiet.max(w.stalled_until[i]);
                    }
                    // whoever is down comes back (a supervisor restarts crashed processes)
                    for a in 1..=n as u16 {
                        if !w.alive(a) {
                            let gen = w.gens[World::idx(a)] + 1;
                            w.spawn(a, gen);
                        }
                    }
                    // idle instances retry their bootstrap announce, as any agent does on Idle / at start-up
                    // (again every announce period for as long as they stay idle: an instance may still lose
                    // its last member to the faults of a moment ago)
                    bootstrap_retry(&mut w, &mut out, 0);
                    w.schedule_op(w.now + retry_every, OP_RETRY);
                }
                Err(OP_RETRY) => {
                    retries += 1;
                    bootstrap_retry(&mut w, &mut out, retries);
                    if w.now < t_quiet + bound {
                        w.schedule_op(w.now + retry_every, OP_RETRY);
                    }
                }
                Err(i) => match &ops[i].1 {
                    ChaosOp::Announce { from, to } => {
                        if *from != *to && w.alive(*from) {
                            let dst = w.id_of(*to);
                            w.call(*from, Input::Announce(dst));
                        }
                    }
                    ChaosOp::Partition { groups } => w.partition(groups),
                    ChaosOp::Heal => w.heal(),
                    ChaosOp::Crash { node, save } => {
                        if let Some(st) = w.crash(*node) {
                            if *save {
                                saved.insert(*node, st);
                            }
                        }
                    }
                    ChaosOp::Restart { node, restore, announce_to, .. } => {
                        if !w.alive(*node) {
                            let gen = w.gens[World::idx(*node)] + 1;
                            w.spawn(*node, gen);
                            if *restore {
                                if let Some(st) = saved.get(node) {
                                    w.call(*node, Input::ApplyMany(st.clone(), false));
                                }
                            }
                            if *announce_to != *node {
                                let dst = w.id_of(*announce_to);
                                w.call(*node, Input::Announce(dst));
                            }
                        }
                    }
                    ChaosOp::Stall { node, ms } => { let i = World::idx(*node); w.stalled_until[i] = w.stalled_until[i].max(w.now + ms * MS); }
                    ChaosOp::Gossip { node } => {
                        w.call(*node, Input::Gossip);
                    }
                    ChaosOp::Broadcast { node } => {
                        w.call(*node, Input::Broadcast);
                    }
                    ChaosOp::AddBroadcast { node, key, version, len } => {
                        let mut item = vec![*key, *version];
                        item.resize((*len).max(2), 0x5a);
                        w.call(*node, Input::AddBroadcast(item));
                    }
                    ChaosOp::Renew { node } => {
                        if w.alive(*node) {
                            let cur = w.id_of(*node);
                            w.call(*node, Input::ChangeIdentity(crate::id::SimId::new(cur.addr, cur.gen + 1)));
                        }
                    }
                    ChaosOp::Leave { .. } | ChaosOp::Skew { .. } | ChaosOp::Save { .. } => {}
                },
                Ok(None) => break,
                Ok(Some(_)) => {}
            }
            while notes_seen < w.notes.len() {
                let (t, a, note) = w.notes[notes_seen].clone();
                notes_seen += 1;
                if matches!(note, OwnedNotification::Defunct) {
                    vs.push(Violation { property: "C05", tag: "C05/defunct".into(), detail: format!("node {a} (renewable identity) notified Defunct at t={}ms", t / MS), at: t });
                }
            }
            if !vs.is_empty() {
                break;
            }
            if quiet && w.converged() && w.live_addrs().iter().all(|a| w.proc(*a).unwrap().obs.connected() || n == 1) {
                converged_at = Some(w.now);
                break;
            }
        }
        if vs.is_empty() && quiet {
            out.nontrivial = true;
            match converged_at {
                Some(t) => {
                    out.stats.max("c05_quiesce_convergence_permille_of_bound", t.saturating_sub(t_quiet) * 1000 / bound);
                }
                None => {
                    let live = w.live_addrs();
                    let all_idle = live.iter().all(|a| {
                        let o = &w.proc(*a).unwrap().obs;
                        o.num_members == 0 && o.snap.connection_state == 0
                    });
                    let holds_stale_down = |a: u16, b: u16| w.proc(a).unwrap().obs.slot(b).is_some_and(|m| m.state() == State::Down && w.id_of(b).gen > m.id().gen);
                    let mutually_superseded = live.iter().any(|a| live.iter().any(|b| a != b && holds_stale_down(*a, *b) && holds_stale_down(*b, *a)));
                    let mut detail = String::new();
                    for a in &live {
                        let view = w.view(*a);
                        for b in &live {
                            if a != b && !view.contains(&w.id_of(*b)) && detail.is_empty() {
                                detail = format!("node {a} (now {}) holds {:?} for node {b} (now {})", w.id_of(*a), w.proc(*a).unwrap().obs.slot(*b), w.id_of(*b));
                            }
                        }
                    }
                    let conns: Vec<String> = live.iter().map(|a| { let o = &w.proc(*a).unwrap().obs; format!("{}:{}:{}members", o.id, ["disconnected", "connected", "defunct"][o.snap.connection_state as usize], o.num_members) }).collect();
                    let tag = if all_idle && mutually_superseded { "C05/no-convergence-after-faults-stop:every-instance-idle:mutually-superseded" } else { "C05/no-convergence-after-faults-stop" };
                    vs.push(Violation { property: "C05", tag: tag.into(), detail: format!("{} ms after the faults stopped: {detail}; instances: {:?}", w.now.saturating_sub(t_quiet) / MS, conns), at: w.now });
                }
            }
        }
        out.signature = w.sig.0;
        out.log_hash = w.log.0;
        out.sim_ns = w.now;
        out.stats.merge(&w.stats);
        out.stats.add("events", w.events);
        vs.extend(w.violations.clone());
        out.violations = vs;
        out
    }
    fn shrink(&self, case: &Case) -> Vec<Case> {
        let q: QP = serde_json::from_value(case.params.clone()).unwrap();
        let mut v = Vec::new();
        let mut push = |x: QP| v.push(Case { params: serde_json::to_value(x).unwrap(), ..case.clone() });
        if q.chaos.wc.net.drop_ppm != 0 {
            let mut x = q.clone();
            x.chaos.wc.net.drop_ppm = 0;
            push(x);
        }
        if q.chaos.wc.net.dup_ppm != 0 {
            let mut x = q.clone();
            x.chaos.wc.net.dup_ppm = 0;
            push(x);
        }
        if q.chaos.wc.cfg.periodic_gossip.is_some() {
            let mut x = q.clone();
            x.chaos.wc.cfg.periodic_gossip = None;
            push(x);
        }
        if q.chaos.wc.cfg.periodic_announce.is_some() {
            let mut x = q.clone();
            x.chaos.wc.cfg.periodic_announce = None;
            push(x);
        }
        v
    }
}
