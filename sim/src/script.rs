//! Single-instance driver: one real Foca instance, the simulator plays every peer, timer and
//! API caller. Records the concrete history so that a failing run is a standalone replay.

use crate::codec::{build_datagram, msg_kind, parse_datagram, CodecKind};
use crate::frame::{Stats, Violation};
use crate::handler::Effect;
use crate::id::SimId;
use crate::monitors::Monitors;
use crate::node::{CallRec, Input, Node, Obs, Res, Setup};
use crate::prng::LogHash;
use foca::{Header, Member, Message, Notification, OwnedNotification, Timer};
use std::time::Duration;

pub struct Driver {
    pub node: Node,
    pub setup: Setup,
    pub history: Vec<Input>,
    /// timers scheduled by the instance and not yet delivered by the simulator, in issue order
    pub pending: Vec<(Timer<SimId>, Duration, u64)>,
    pub obs: Obs,
    pub log: LogHash,
    pub sig: LogHash,
    pub violations: Vec<Violation>,
    pub stats: Stats,
    pub monitors: Monitors,
    /// number of epoch changes observed publicly (Idle, Defunct, Rejoin, successful identity change / reuse)
    pub epochs: u64,
    pub issue_seq: u64,
}

pub fn note_kind(n: &OwnedNotification<SimId>) -> &'static str {
    match n {
        OwnedNotification::MemberUp(_) => "MemberUp",
        OwnedNotification::MemberDown(_) => "MemberDown",
        OwnedNotification::Rename(_, _) => "Rename",
        OwnedNotification::Active => "Active",
        OwnedNotification::Idle => "Idle",
        OwnedNotification::Defunct => "Defunct",
        OwnedNotification::Rejoin(_) => "Rejoin",
    }
}

pub fn hash_call(log: &mut LogHash, sig: &mut LogHash, rec: &CallRec, codec: CodecKind) {
    log.s(rec.input.kind());
    sig.s(rec.input.kind());
    let r = format!("{:?}", rec.result);
    log.s(&r);
    sig.s(&r);
    if !matches!(rec.input, Input::Data(_)) {
        log.s(&format!("{:?}", rec.input));
    }
    if let Input::Data(d) = &rec.input {
        log.bytes(d);
        if let Ok(p) = parse_datagram(codec, d) {
            sig.s(msg_kind(&p.header.message));
        }
    }
    for e in &rec.fx {
        match e {
            Effect::Send { to, data } => {
                log.u(1);
                log.u(((to.addr as u64) << 32) | to.gen as u64);
                log.bytes(data);
                sig.u(1);
                if let Ok(p) = parse_datagram(codec, data) {
                    sig.s(msg_kind(&p.header.message));
                    sig.u(p.members.as_ref().map(|m| m.len() as u64 + 1).unwrap_or(0));
                    sig.u(p.items.len() as u64);
                }
            }
            Effect::Sched { timer, after } => {
                log.u(2);
                log.s(&format!("{timer:?}"));
                log.u(after.as_nanos() as u64);
                sig.u(2);
                sig.s(Input::Timer(timer.clone()).kind());
            }
            Effect::Notify(n) => {
                log.u(3);
                log.s(&format!("{n:?}"));
                sig.u(3);
                sig.s(note_kind(n));
            }
        }
    }
}

impl Driver {
    pub fn new(setup: Setup) -> Driver {
        let node = Node::new(&setup);
        let obs = node.obs();
        let monitors = Monitors::new(&setup, &obs);
        Driver {
            node,
            setup,
            history: Vec::new(),
            pending: Vec::new(),
            obs,
            log: LogHash::new(),
            sig: LogHash::new(),
            violations: Vec::new(),
            stats: Stats::default(),
            monitors,
            epochs: 0,
            issue_seq: 0,
        }
    }

    pub fn id(&self) -> SimId {
        self.obs.id
    }
    pub fn codec(&self) -> CodecKind {
        self.setup.codec
    }
    pub fn dead(&self) -> bool {
        self.node.poisoned
    }

    /// Execute one call; run all monitors; keep the ledger of scheduled timers.
    pub fn step(&mut self, input: Input) -> CallRec {
        let step_idx = self.history.len() as u64;
        // a genuine timer is delivered at most once: remove it from the ledger
        if let Input::Timer(t) = &input {
            if let Some(pos) = self.pending.iter().position(|(p, _, _)| p == t) {
                self.pending.remove(pos);
            }
        }
        self.history.push(input.clone());
        let pre = self.obs.clone();
        let rec = self.node.call(input);
        if rec.panic.is_some() {
            self.violations.push(Violation {
                property: "C06",
                tag: panic_tag(rec.panic.as_deref().unwrap_or("")),
                detail: format!("{} panicked: {}", rec.input.kind(), rec.panic.clone().unwrap_or_default()),
                at: step_idx,
            });
            hash_call(&mut self.log, &mut self.sig, &rec, self.setup.codec);
            return rec;
        }
        let post = self.node.obs();
        hash_call(&mut self.log, &mut self.sig, &rec, self.setup.codec);
        for (t, d) in rec.scheds() {
            self.issue_seq += 1;
            self.pending.push((t.clone(), *d, self.issue_seq));
        }
        for n in rec.notes() {
            if matches!(n, OwnedNotification::Idle | OwnedNotification::Defunct | OwnedNotification::Rejoin(_)) {
                self.epochs += 1;
            }
        }
        match (&rec.input, rec.result) {
            (Input::ChangeIdentity(_), Res::Ok) | (Input::ReuseDown, Res::Ok) => {
                // a rejoin already counted through its notification never comes through here
                self.epochs += 1;
            }
            _ => {}
        }
        self.stats.inc("calls");
        if let crate::node::Res::Err(k) = rec.result {
            self.stats.inc(&format!("result_err_{k:?}"));
        }
        self.stats.add("sends", rec.sends().count() as u64);
        if trace_on() {
            eprintln!("#{step_idx} {}", describe_input(&rec.input, self.setup.codec));
            eprintln!("    -> {:?}", rec.result);
            for e in &rec.fx {
                eprintln!("    {}", describe_effect(e, self.setup.codec));
            }
            eprintln!("    state: id={} inc={} conn={} members={:?} backlog={}/{}", post.id, post.snap.incarnation, post.snap.connection_state,
                post.state.iter().map(|m| format!("{}:{}:{:?}", m.id(), m.incarnation(), m.state())).collect::<Vec<_>>(), post.updates_backlog, post.custom_backlog);
        }
        let mut vs = Vec::new();
        if rec.conflict_contract_breaches > 0 {
            vs.push(Violation { property: "C09", tag: "C09/win-addr-conflict-asked-outside-its-contract".into(), detail: format!("{}: Identity::win_addr_conflict was called {} time(s) for identities that do not share an address or for an identity against itself (the bundled SocketAddr identities panic there)", rec.input.kind(), rec.conflict_contract_breaches), at: step_idx });
        }
        if let Some(m) = &rec.twin_mismatch {
            vs.push(Violation { property: "C08", tag: "C08/accumulating-runtime-differs".into(), detail: format!("{}: {m}", rec.input.kind()), at: step_idx });
        }
        if self.node.twin.is_some() {
            self.stats.inc("c08_accumulating_runtime_twin_calls");
        }
        self.monitors.step(&pre, &rec, &post, step_idx, &mut vs, &mut self.stats);
        self.violations.extend(vs);
        self.obs = post;
        rec
    }

    pub fn has_violation(&self, property: &str) -> bool {
        self.violations.iter().any(|v| v.property == property)
    }

    // ---- helpers to play peers -------------------------------------------------------------

    pub fn dgram(&self, src: SimId, src_inc: u16, msg: Message<SimId>, updates: Option<&[Member<SimId>]>, items: &[Vec<u8>]) -> Vec<u8> {
        let h = Header { src, src_incarnation: src_inc, dst: self.id(), message: msg };
        build_datagram(self.setup.codec, &h, updates, items)
    }

    pub fn deliver(&mut self, src: SimId, src_inc: u16, msg: Message<SimId>, updates: &[Member<SimId>]) -> CallRec {
        let up = if updates.is_empty() { None } else { Some(updates) };
        let d = self.dgram(src, src_inc, msg, up, &[]);
        self.step(Input::Data(d))
    }

    /// Latest pending timer matching a predicate
    pub fn find_timer(&self, f: impl Fn(&Timer<SimId>) -> bool) -> Option<Timer<SimId>> {
        self.pending.iter().rev().find(|(t, _, _)| f(t)).map(|(t, _, _)| t.clone())
    }

    pub fn fire(&mut self, f: impl Fn(&Timer<SimId>) -> bool) -> Option<CallRec> {
        let t = self.find_timer(f)?;
        Some(self.step(Input::Timer(t)))
    }
}

pub fn is_probe(t: &Timer<SimId>) -> bool {
    matches!(t, Timer::ProbeRandomMember(_))
}
pub fn is_indirect(t: &Timer<SimId>) -> bool {
    matches!(t, Timer::SendIndirectProbe { .. })
}

pub fn notification_of<'a>(n: &'a Notification<'a, SimId>) -> &'a Notification<'a, SimId> {
    n
}

/// First Ping in a call's effects: (destination, probe number)
pub fn ping_of(rec: &CallRec, codec: CodecKind) -> Option<(SimId, u8)> {
    for (to, data) in rec.sends() {
        if let Ok(p) = parse_datagram(codec, data) {
            if let Message::Ping(n) = p.header.message {
                return Some((*to, n));
            }
        }
    }
    None
}

pub fn trace_on() -> bool {
    use std::sync::OnceLock;
    static ON: OnceLock<bool> = OnceLock::new();
    *ON.get_or_init(|| std::env::var_os("VERIF_TRACE").is_some())
}

pub fn describe_datagram(data: &[u8], codec: CodecKind) -> String {
    match parse_datagram(codec, data) {
        Ok(p) => format!(
            "{:?} {}@{} -> {} updates={:?} items={:?}",
            p.header.message, p.header.src, p.header.src_incarnation, p.header.dst,
            p.members.as_ref().map(|ms| ms.iter().map(|(m, _)| format!("{}:{}:{:?}", m.id(), m.incarnation(), m.state())).collect::<Vec<_>>()),
            p.items.iter().map(|r| crate::node::hex::to_hex(&data[r.clone()])).collect::<Vec<_>>()
        ),
        Err(e) => format!("<unparsable: {e}> {}", crate::node::hex::to_hex(&data[..data.len().min(64)])),
    }
}

pub fn describe_input(i: &Input, codec: CodecKind) -> String {
    match i {
        Input::Data(d) => format!("DATA[{}] {}", d.len(), describe_datagram(d, codec)),
        other => format!("{other:?}"),
    }
}

pub fn describe_effect(e: &Effect, codec: CodecKind) -> String {
    match e {
        Effect::Send { to, data } => format!("SEND to {to} [{}] {}", data.len(), describe_datagram(data, codec)),
        Effect::Sched { timer, after } => format!("SCHED {timer:?} after {after:?}"),
        Effect::Notify(n) => format!("NOTIFY {n:?}"),
    }
}

/// Oracle tag for a panic: stable across runs, distinct per panic message.
pub fn panic_tag(msg: &str) -> String {
    let first: String = msg.lines().next().unwrap_or("").chars().take(48).map(|c| if c.is_ascii_alphanumeric() { c } else { '-' }).collect();
    format!("C06/panic/{first}")
}
