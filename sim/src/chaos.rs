//! Chaos pool: swarm-style multi-node runs. Every run enables a random subset of fault kinds at
//! random moderate rates, with random size, configuration and workload; all monitors that are
//! valid under arbitrary faults run on every call of every node.

use crate::codec::CodecKind;
use crate::frame::{Case, RunOut, Scenario, Tier};
use crate::hist::{gen_hcfg, gen_policy};
use crate::id::SimId;
use crate::node::Input;
use crate::prng::Stream;
use crate::world::{NetCfg, World, WorldCfg, MS};
use foca::{Config, Member, PeriodicParams};
use std::collections::BTreeMap;
use std::num::{NonZeroU8, NonZeroUsize};
use std::time::Duration;

fn one() -> i32 {
    1
}

#[derive(Clone, Debug, serde::Serialize, serde::Deserialize)]
pub enum Op {
    Announce { from: u16, to: u16 },
    Partition { groups: Vec<Vec<u16>> },
    Heal,
    Crash { node: u16, save: bool },
    Restart { node: u16, restore: bool, announce_to: u16, #[serde(default = "one")] gen_delta: i32 },
    Leave { node: u16 },
    Stall { node: u16, ms: u64 },
    Gossip { node: u16 },
    Broadcast { node: u16 },
    AddBroadcast { node: u16, key: u8, version: u8, len: usize },
    Renew { node: u16 },
    Skew { node: u16, ppt: u64, lag_ms: u64 },
    /// periodic persistence: the membership snapshot is saved while the process keeps running; a later
    /// restart may restore this (by then stale) snapshot
    Save { node: u16 },
}

#[derive(Clone, Debug, serde::Serialize, serde::Deserialize)]
pub struct P {
    pub wc: WorldCfg,
    pub duration_ms: u64,
    pub start_ms: Vec<u64>,
}

fn gen_cfg(s: &mut Stream, var_or_serde: bool) -> Config {
    let rtt = s.range(20, 400);
    let period = rtt + 1 + s.range(0, 4 * rtt);
    let periodic = |s: &mut Stream, lo: u64, hi: u64| -> Option<PeriodicParams> {
        if s.chance(1, 2) {
            Some(PeriodicParams { frequency: Duration::from_millis(s.range(lo, hi)), num_members: NonZeroUsize::new(s.range(1, 3) as usize).unwrap() })
        } else {
            None
        }
    };
    let min_mps = if var_or_serde { 120 } else { 24 };
    Config {
        probe_period: Duration::from_millis(period),
        probe_rtt: Duration::from_millis(rtt),
        num_indirect_probes: NonZeroUsize::new(s.range(1, 4) as usize).unwrap(),
        max_transmissions: NonZeroU8::new(*s.pick(&[1u8, 2, 3, 5, 10])).unwrap(),
        suspect_to_down_after: Duration::from_millis(s.range(period / 2 + 1, 4 * period)),
        remove_down_after: Duration::from_millis(*s.pick(&[2 * period, 10 * period, 100 * period, 86_400_000])),
        max_packet_size: NonZeroUsize::new(*s.pick(&[min_mps, min_mps + 30, min_mps + 100, 400, 1400])).unwrap(),
        notify_down_members: s.chance(2, 3),
        periodic_announce: periodic(s, period, 5 * period),
        periodic_announce_to_down_members: periodic(s, period, 5 * period),
        periodic_gossip: periodic(s, period / 4 + 1, 2 * period),
    }
}

pub fn gen_case(seed: u64, tier: Tier) -> (P, Vec<(u64, Op)>) {
    let mut s = Stream::new(seed, "chaos-params");
    let n = s.range(2, match tier { Tier::Quick => 7, Tier::Thorough => 12 }) as usize;
    let policy = gen_policy(&mut s);
    let codec = *s.pick(&[CodecKind::Wire, CodecKind::Wire, CodecKind::WireDirty, CodecKind::Bincode, CodecKind::Postcard]);
    let cfg = gen_cfg(&mut s, policy.var_ids || !codec.is_wire());
    let period = cfg.probe_period.as_millis() as u64;
    let rtt = cfg.probe_rtt.as_millis() as u64;
    // swarm: each fault kind is enabled for this run or not
    let on = |s: &mut Stream| s.chance(1, 2);
    let lat_hi = if on(&mut s) { s.range(1, 2 * rtt) } else { s.range(1, rtt / 4 + 1) };
    let net = NetCfg {
        lat_min_ns: 0,
        lat_max_ns: lat_hi * MS,
        drop_ppm: if on(&mut s) { s.range(1_000, 200_000) } else { 0 },
        dup_ppm: if on(&mut s) { s.range(1_000, 100_000) } else { 0 },
        corrupt_ppm: if on(&mut s) { s.range(1_000, 50_000) } else { 0 },
        ..NetCfg::clean(0, 0)
    };
    // fault kinds added later draw from their own stream, so that the cases of earlier rounds stay what they were
    let mut s2 = Stream::new(seed, "chaos-params-2");
    let mut net = net;
    if s2.chance(1, 3) {
        net.replay_ppm = s2.range(1_000, 60_000);
        net.replay_max_ns = s2.range(2, 40) * period * MS;
    }
    if s2.chance(1, 3) {
        net.misdeliver_ppm = s2.range(1_000, 50_000);
    }
    if s2.chance(1, 3) {
        net.spike_ppm = s2.range(1_000, 80_000);
        net.spike_max_ns = s2.range(1, 6) * period * MS;
    }
    let stale_snapshots = s2.chance(1, 3);
    let wc = WorldCfg { n, cfg, codec, policy, hcfg: gen_hcfg(&mut s), net, gen0: 1 };
    let duration_ms = s.range(10, 60) * period;
    let start_ms: Vec<u64> = (0..n).map(|_| s.range(0, 2 * period)).collect();
    let mut ops: Vec<(u64, Op)> = Vec::new();
    let node = |s: &mut Stream| s.range(1, n as u64) as u16;
    // joins: everybody announces to somebody early on, some re-announce later
    for a in 2..=n as u16 {
        let to = s.range(1, a as u64 - 1) as u16;
        ops.push((start_ms[a as usize - 1] + s.range(0, period), Op::Announce { from: a, to }));
    }
    let kinds_on: Vec<bool> = (0..8).map(|_| on(&mut s)).collect();
    let n_ops = s.range(0, 14);
    for _ in 0..n_ops {
        let t = s.range(period, duration_ms);
        let k = s.below(8) as usize;
        if !kinds_on[k] {
            continue;
        }
        let op = match k {
            0 => {
                let mut nodes: Vec<u16> = (1..=n as u16).collect();
                s.shuffle(&mut nodes);
                let cut = s.range(1, n as u64 - 1).max(1) as usize;
                let heal_at = t + s.range(period, 12 * period);
                ops.push((heal_at, Op::Heal));
                Op::Partition { groups: vec![nodes[..cut].to_vec(), nodes[cut..].to_vec()] }
            }
            1 => {
                let a = node(&mut s);
                let save = s.chance(1, 2);
                let back = t + s.range(period / 2 + 1, 10 * period);
                let mut restore = save;
                if stale_snapshots && !save && s2.chance(1, 2) {
                    ops.push((t.saturating_sub(s2.range(period, 20 * period)), Op::Save { node: a }));
                    restore = true;
                }
                ops.push((back, Op::Restart { node: a, restore, announce_to: node(&mut s), gen_delta: *s.pick(&[1i32, 1, 1, 0, -1, 3]) }));
                Op::Crash { node: a, save }
            }
            2 => Op::Leave { node: node(&mut s) },
            3 => Op::Stall { node: node(&mut s), ms: s.range(period / 2 + 1, 6 * period) },
            4 => Op::AddBroadcast { node: node(&mut s), key: s.below(6) as u8, version: s.range(1, 250) as u8, len: *s.pick(&[2usize, 5, 20, 60]) },
            5 => {
                if s.chance(1, 2) {
                    Op::Broadcast { node: node(&mut s) }
                } else {
                    Op::Gossip { node: node(&mut s) }
                }
            }
            6 => Op::Renew { node: node(&mut s) },
            _ => Op::Skew { node: node(&mut s), ppt: s.range(500, 2000), lag_ms: s.range(0, period) },
        };
        ops.push((t, op));
    }
    ops.sort_by_key(|x| x.0);
    (P { wc, duration_ms, start_ms }, ops)
}

pub fn execute(p: &P, ops: &[(u64, Op)], seed: u64) -> RunOut {
    let mut out = RunOut::default();
    let mut w = World::new(p.wc.clone(), seed);
    w.acc_twin = seed % 3 == 0;
    let n = p.wc.n;
    for a in 1..=n as u16 {
        w.spawn(a, p.wc.gen0);
    }
    for (i, (t, _)) in ops.iter().enumerate() {
        w.schedule_op(*t * MS, i);
    }
    let mut saved: BTreeMap<u16, Vec<Member<SimId>>> = BTreeMap::new();
    let mut stale: BTreeMap<u16, Vec<Member<SimId>>> = BTreeMap::new();
    let end = p.duration_ms * MS;
    let mut events_budget = 400_000u64;
    while let Some(t) = w.peek_time() {
        if t > end || events_budget == 0 {
            break;
        }
        events_budget -= 1;
        match w.step() {
            Err(i) => match &ops[i].1 {
                Op::Announce { from, to } => {
                    if *from != *to && w.alive(*from) {
                        let dst = w.id_of(*to);
                        w.call(*from, Input::Announce(dst));
                    }
                }
                Op::Partition { groups } => w.partition(groups),
                Op::Heal => w.heal(),
                Op::Crash { node, save } => {
                    if let Some(st) = w.crash(*node) {
                        if *save {
                            saved.insert(*node, st);
                        } else {
                            saved.remove(node);
                        }
                    }
                }
                Op::Restart { node, restore, announce_to, gen_delta } => {
                    if !w.alive(*node) {
                        // usually the next generation; sometimes the very same identity or an older
                        // one (a process restarted from an old image)
                        let gen = (w.gens[World::idx(*node)] as i64 + *gen_delta as i64).max(0) as u32;
                        w.spawn(*node, gen);
                        w.stats.inc("fault_restart");
                        if *restore {
                            if let Some(st) = saved.get(node).or_else(|| { let st = stale.get(node); if st.is_some() { w.stats.inc("fault_restart_with_stale_snapshot"); } st }) {
                                // only durable state survives: the membership snapshot saved before the crash
                                w.call(*node, Input::ApplyMany(st.clone(), false));
                                w.stats.inc("fault_restart_with_snapshot");
                            }
                        }
                        if *announce_to != *node {
                            let dst = w.id_of(*announce_to);
                            w.call(*node, Input::Announce(dst));
                        }
                    }
                }
                Op::Leave { node } => {
                    if w.alive(*node) {
                        w.call(*node, Input::Leave);
                        w.stats.inc("fault_leave");
                    }
                }
                Op::Stall { node, ms } => {
                    { let i = World::idx(*node); w.stalled_until[i] = w.stalled_until[i].max(w.now + ms * MS); }
                    w.stats.inc("fault_stall");
                }
                Op::Gossip { node } => {
                    w.call(*node, Input::Gossip);
                }
                Op::Broadcast { node } => {
                    w.call(*node, Input::Broadcast);
                }
                Op::AddBroadcast { node, key, version, len } => {
                    let mut item = vec![*key, *version];
                    item.resize((*len).max(2), 0x5a);
                    w.call(*node, Input::AddBroadcast(item));
                }
                Op::Renew { node } => {
                    if w.alive(*node) {
                        let cur = w.id_of(*node);
                        w.call(*node, Input::ChangeIdentity(SimId::new(cur.addr, cur.gen + 1)));
                        w.stats.inc("user_identity_change");
                    }
                }
                Op::Save { node } => {
                    if let Some(p) = w.proc(*node) {
                        stale.insert(*node, p.obs.state.clone());
                    }
                }
                Op::Skew { node, ppt, lag_ms } => {
                    w.skew_ppt[World::idx(*node)] = *ppt;
                    w.lag_ns[World::idx(*node)] = lag_ms * MS;
                    w.stats.inc("fault_clock_skew");
                }
            },
            Ok(None) => break,
            Ok(Some(_)) => {}
        }
        if w.violations.len() > 8 {
            break;
        }
    }
    out.nontrivial = w.events > 20;
    out.signature = w.sig.0;
    out.log_hash = w.log.0;
    out.sim_ns = w.now;
    out.stats.merge(&w.stats);
    out.stats.add("events", w.events);
    if w.converged() {
        out.stats.inc("chaos_runs_ending_converged");
    }
    if w.violations.is_empty() {
        let vs = exchange_final_states(&w, &mut out.stats);
        w.violations.extend(vs);
    }
    out.violations = w.violations;
    out
}

/// C01 on the states real cluster runs end in (whatever the faults made of them): for pairs of live
/// instances, (1) the table read through iter_membership_state, fed to a fresh instance with
/// broadcasting off (the documented persistence use), reproduces itself on every third-party address;
/// (2) feeding it to that instance again changes nothing; (3) after the two restored instances
/// exchange their full states in both directions they agree on every third-party address.
pub fn exchange_final_states(w: &World, stats: &mut crate::frame::Stats) -> Vec<crate::frame::Violation> {
    use crate::frame::Violation;
    use crate::script::Driver;
    use foca::State;
    let mut vs = Vec::new();
    let live = w.live_addrs();
    let masked = |st: &[Member<SimId>], skip: &[u16]| -> Vec<Member<SimId>> {
        let mut v: Vec<Member<SimId>> = st
            .iter()
            .filter(|m| !skip.contains(&m.id().addr))
            .map(|m| if m.state() == State::Down { Member::new(*m.id(), 0, State::Down) } else { m.clone() })
            .collect();
        v.sort_by_key(|m| (m.id().addr, m.id().gen));
        v
    };
    let restore = |addr: u16, vs: &mut Vec<Violation>, stats: &mut crate::frame::Stats| -> Option<Driver> {
        let p = w.proc(addr)?;
        if p.node.poisoned {
            return None;
        }
        let mut setup = w.setup_for(addr, p.obs.id.gen);
        setup.id = p.obs.id;
        setup.acc_twin = false;
        let mut d = Driver::new(setup);
        // "for every identity other than its own": a table can come to hold the instance's own current identity
        // as a Down record (a bit flip fabricates generation g+2 of its address, then it renews twice; or a process
        // restarted from an old image renews into an identity it already used) - feeding that record back is a
        // verdict about the instance itself, not part of its view of others
        let st: Vec<Member<SimId>> = p.obs.state.iter().filter(|m| *m.id() != p.obs.id).cloned().collect();
        if st.len() != p.obs.state.len() {
            stats.inc("c01_own_current_identity_listed_in_own_table");
        }
        d.step(Input::ApplyMany(st.clone(), false));
        if d.dead() {
            return None;
        }
        stats.inc("c01_cluster_states_restored");
        let (want, got) = (masked(&st, &[addr]), masked(&d.obs.state, &[addr]));
        if want != got {
            vs.push(Violation { property: "C01", tag: "C01/restored-state-differs".into(), detail: format!("node {addr}: iter_membership_state {want:?} applied to a fresh instance gives {got:?}"), at: w.now });
        }
        let pre = d.obs.clone();
        let rec = d.step(Input::ApplyMany(st, false));
        if !rec.no_effects() || !rec.result.is_ok() || pre != d.obs {
            vs.push(Violation { property: "C01", tag: "C01/reapplying-own-state-not-a-noop".into(), detail: format!("node {addr}: apply_many(own full state) on the restored instance: result {:?}, {} effect(s) {:?}, state changed: {} (table before {:?}, after {:?})", rec.result, rec.fx.len(), rec.fx.iter().map(|e| crate::script::describe_effect(e, w.wc.codec)).collect::<Vec<_>>(), pre != d.obs, pre.state, d.obs.state), at: w.now });
        }
        Some(d)
    };
    let mut pairs = 0;
    'outer: for (i, a) in live.iter().enumerate() {
        for b in live.iter().skip(i + 1) {
            if pairs >= 6 {
                break 'outer;
            }
            pairs += 1;
            let (Some(mut da), Some(mut db)) = (restore(*a, &mut vs, stats), restore(*b, &mut vs, stats)) else { continue };
            let (ida, idb) = (da.id(), db.id());
            let from_a: Vec<Member<SimId>> = da.obs.state.iter().filter(|m| *m.id() != idb).cloned().collect();
            db.step(Input::ApplyMany(from_a, true));
            let from_b: Vec<Member<SimId>> = db.obs.state.iter().filter(|m| *m.id() != ida).cloned().collect();
            da.step(Input::ApplyMany(from_b, true));
            if da.dead() || db.dead() {
                continue;
            }
            stats.inc("c01_cluster_state_exchanges");
            let (va, vb) = (masked(&da.obs.state, &[*a, *b]), masked(&db.obs.state, &[*a, *b]));
            if !va.is_empty() {
                stats.inc("c01_cluster_state_exchanges_nonempty");
            }
            if va != vb {
                vs.push(Violation { property: "C01", tag: "C01/state-exchange-disagreement".into(), detail: format!("nodes {a} and {b} after exchanging the full states their cluster run ended in: {va:?} vs {vb:?}"), at: w.now });
            }
        }
    }
    vs
}

pub struct Chaos {
    pub focus: &'static str,
}

impl Scenario for Chaos {
    fn name(&self) -> &'static str {
        "chaos-pool"
    }
    fn gen(&self, seed: u64, tier: Tier, _i: u64) -> Case {
        let (p, ops) = gen_case(seed, tier);
        Case { property: self.focus.into(), scenario: self.name().into(), seed, params: serde_json::to_value(p).unwrap(), steps: ops.iter().map(|o| serde_json::to_value(o).unwrap()).collect(), explicit: true }
    }
    fn run(&self, case: &Case) -> RunOut {
        let p: P = serde_json::from_value(case.params.clone()).expect("chaos params");
        let ops: Vec<(u64, Op)> = case.steps.iter().map(|v| serde_json::from_value(v.clone()).expect("chaos op")).collect();
        execute(&p, &ops, case.seed)
    }
    fn shrink(&self, case: &Case) -> Vec<Case> {
        let p: P = serde_json::from_value(case.params.clone()).unwrap();
        let mut v = Vec::new();
        let mut push = |q: P| v.push(Case { params: serde_json::to_value(q).unwrap(), ..case.clone() });
        for (name, f) in [("drop", 0), ("dup", 1), ("corrupt", 2)] {
            let _ = name;
            let mut q = p.clone();
            let changed = match f {
                0 => std::mem::replace(&mut q.wc.net.drop_ppm, 0) != 0,
                1 => std::mem::replace(&mut q.wc.net.dup_ppm, 0) != 0,
                _ => std::mem::replace(&mut q.wc.net.corrupt_ppm, 0) != 0,
            };
            if changed {
                push(q);
            }
        }
        if p.duration_ms > 2000 {
            let mut q = p.clone();
            q.duration_ms = p.duration_ms * 2 / 3;
            push(q);
        }
        for f in 0..3 {
            let mut q = p.clone();
            let changed = match f {
                0 => q.wc.cfg.periodic_announce.take().is_some(),
                1 => q.wc.cfg.periodic_gossip.take().is_some(),
                _ => q.wc.cfg.periodic_announce_to_down_members.take().is_some(),
            };
            if changed {
                push(q);
            }
        }
        v
    }
}
