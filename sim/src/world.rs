//! Discrete-event world: N real Foca instances, a simulated network and clock, fault injection.
//! Single-threaded per run; every choice comes from counter-based streams of the run seed.

use crate::codec::{parse_datagram, CodecKind};
use crate::frame::{Stats, Violation};
use crate::handler::{Effect, HandlerCfg};
use crate::id::{Policy, SimId};
use crate::monitors::Monitors;
use crate::node::{CallRec, ErrKind, Input, Node, Obs, Res, Setup};
use crate::prng::{draw, mix3, name_hash, LogHash};
use crate::script::hash_call;
use foca::{Config, Member, OwnedNotification, Timer};
use std::cmp::Reverse;
use std::collections::{BTreeSet, BinaryHeap};

pub const MS: u64 = 1_000_000;
pub const SEC: u64 = 1_000_000_000;

#[derive(Clone, Debug, serde::Serialize, serde::Deserialize)]
pub struct NetCfg {
    pub lat_min_ns: u64,
    pub lat_max_ns: u64,
    pub drop_ppm: u64,
    pub dup_ppm: u64,
    pub corrupt_ppm: u64,
    /// a copy of the datagram is delivered again much later (up to replay_max_ns after the original):
    /// a stale datagram from an earlier epoch of the sender, the receiver or both
    #[serde(default)]
    pub replay_ppm: u64,
    #[serde(default)]
    pub replay_max_ns: u64,
    /// the datagram reaches a different node than the one it was sent to (possibly its own sender)
    #[serde(default)]
    pub misdeliver_ppm: u64,
    /// a single datagram is held back for up to spike_max_ns on top of its latency
    #[serde(default)]
    pub spike_ppm: u64,
    #[serde(default)]
    pub spike_max_ns: u64,
}

impl NetCfg {
    pub fn clean(lat_min_ns: u64, lat_max_ns: u64) -> Self {
        NetCfg { lat_min_ns, lat_max_ns, drop_ppm: 0, dup_ppm: 0, corrupt_ppm: 0, replay_ppm: 0, replay_max_ns: 0, misdeliver_ppm: 0, spike_ppm: 0, spike_max_ns: 0 }
    }
}

#[derive(Clone, Debug, serde::Serialize, serde::Deserialize)]
pub struct WorldCfg {
    pub n: usize,
    pub cfg: Config,
    pub codec: CodecKind,
    pub policy: Policy,
    pub hcfg: HandlerCfg,
    pub net: NetCfg,
    /// generation every node starts with
    pub gen0: u32,
}

#[derive(Clone, Debug)]
pub enum EvKind {
    Deliver { to_addr: u16, from_addr: u16, data: Vec<u8>, idx: u64, damaged: bool },
    Timer { addr: u16, proc_epoch: u32, timer: Timer<SimId> },
    /// a plan operation (index into the scenario's plan); handled by the scenario
    Op(usize),
}

#[derive(Clone, Debug)]
pub struct Ev {
    pub at: u64,
    /// original deadline: events deferred by a stall keep their deadline order among themselves
    pub orig: u64,
    pub seq: u64,
    pub kind: EvKind,
}
impl PartialEq for Ev {
    fn eq(&self, o: &Self) -> bool {
        (self.at, self.orig, self.seq) == (o.at, o.orig, o.seq)
    }
}
impl Eq for Ev {}
impl PartialOrd for Ev {
    fn partial_cmp(&self, o: &Self) -> Option<std::cmp::Ordering> {
        Some(self.cmp(o))
    }
}
impl Ord for Ev {
    fn cmp(&self, o: &Self) -> std::cmp::Ordering {
        (self.at, self.orig, self.seq).cmp(&(o.at, o.orig, o.seq))
    }
}

pub struct Proc {
    pub node: Node,
    pub monitors: Monitors,
    pub obs: Obs,
    pub epoch: u32,
    pub started_at: u64,
}

/// What happened in one processed event (None for events that reached nobody).
pub struct StepInfo {
    pub at: u64,
    pub addr: u16,
    pub rec: CallRec,
    /// for Deliver events: index of the datagram
    pub dgram: Option<u64>,
}

pub struct World {
    pub wc: WorldCfg,
    pub seed: u64,
    pub now: u64,
    seq: u64,
    queue: BinaryHeap<Reverse<Ev>>,
    pub procs: Vec<Option<Proc>>,
    pub gens: Vec<u32>,
    pub proc_epochs: Vec<u32>,
    /// blocked[src][dst] (0-based node index)
    pub blocked: Vec<Vec<bool>>,
    pub drop_idx: BTreeSet<u64>,
    pub dgrams_sent: u64,
    pub events: u64,
    link_count: Vec<u64>,
    pub stats: Stats,
    pub log: LogHash,
    pub sig: LogHash,
    pub violations: Vec<Violation>,
    /// every notification of every node: (time, addr, notification)
    pub notes: Vec<(u64, u16, OwnedNotification<SimId>)>,
    /// errors returned by calls: (time, addr, input kind, error)
    pub errors: Vec<(u64, u16, &'static str, ErrKind)>,
    /// kinds of datagrams dropped by index (for evidence)
    pub record_kinds: bool,
    pub dropped_kinds: Vec<&'static str>,
    /// per-node timer skew in parts per thousand (1000 = exact) and fixed lag
    pub skew_ppt: Vec<u64>,
    pub lag_ns: Vec<u64>,
    pub stalled_until: Vec<u64>,
    /// every Feed sent: (sender addr, receiver addr, addresses the sender held as active when it sent it)
    pub feed_log: Vec<(u16, u16, Vec<u16>)>,
    /// hard cap on processed events per run (a message storm must not exhaust memory)
    pub max_events: u64,
    pub runaway: bool,
    pub acc_twin: bool,
}

impl World {
    pub fn new(wc: WorldCfg, seed: u64) -> World {
        crate::id::set_policy(wc.policy);
        let n = wc.n;
        World {
            seed,
            now: 0,
            seq: 0,
            queue: BinaryHeap::new(),
            procs: (0..n).map(|_| None).collect(),
            gens: vec![wc.gen0; n],
            proc_epochs: vec![0; n],
            blocked: vec![vec![false; n]; n],
            drop_idx: BTreeSet::new(),
            dgrams_sent: 0,
            events: 0,
            link_count: vec![0; n * n],
            stats: Stats::default(),
            log: LogHash::new(),
            sig: LogHash::new(),
            violations: Vec::new(),
            notes: Vec::new(),
            errors: Vec::new(),
            record_kinds: false,
            dropped_kinds: Vec::new(),
            skew_ppt: vec![1000; n],
            lag_ns: vec![0; n],
            stalled_until: vec![0; n],
            feed_log: Vec::new(),
            max_events: 1_500_000,
            runaway: false,
            acc_twin: false,
            wc,
        }
    }

    pub fn idx(addr: u16) -> usize {
        (addr - 1) as usize
    }
    pub fn addr_of(i: usize) -> u16 {
        (i + 1) as u16
    }
    pub fn id_of(&self, addr: u16) -> SimId {
        match &self.procs[Self::idx(addr)] {
            Some(p) => p.obs.id,
            None => SimId::new(addr, self.gens[Self::idx(addr)]),
        }
    }
    pub fn alive(&self, addr: u16) -> bool {
        self.procs[Self::idx(addr)].is_some()
    }
    pub fn live_addrs(&self) -> Vec<u16> {
        (0..self.wc.n).filter(|i| self.procs[*i].is_some()).map(Self::addr_of).collect()
    }
    pub fn proc(&self, addr: u16) -> Option<&Proc> {
        self.procs[Self::idx(addr)].as_ref()
    }

    pub fn setup_for(&self, addr: u16, gen: u32) -> Setup {
        let i = Self::idx(addr);
        Setup {
            id: SimId::new(addr, gen),
            cfg: self.wc.cfg.clone(),
            codec: self.wc.codec,
            policy: self.wc.policy,
            hcfg: self.wc.hcfg,
            rng_seed: mix3(self.seed, name_hash("foca-rng"), ((addr as u64) << 32) | self.proc_epochs[i] as u64),
            acc_twin: self.acc_twin,
        }
    }

    /// Start (or restart) the process at `addr` with generation `gen`.
    pub fn spawn(&mut self, addr: u16, gen: u32) {
        let i = Self::idx(addr);
        self.proc_epochs[i] += 1;
        self.gens[i] = gen;
        let setup = self.setup_for(addr, gen);
        let node = Node::new(&setup);
        let obs = node.obs();
        let mut monitors = Monitors::new(&setup, &obs);
        monitors.exact_timers = true;
        self.procs[i] = Some(Proc { node, monitors, obs, epoch: self.proc_epochs[i], started_at: self.now });
        self.stats.inc("procs_started");
    }

    /// Crash: the value and its pending timers are gone; only what the caller saved survives.
    pub fn crash(&mut self, addr: u16) -> Option<Vec<Member<SimId>>> {
        let i = Self::idx(addr);
        let snapshot = self.procs[i].as_ref().map(|p| p.obs.state.clone());
        if self.procs[i].take().is_some() {
            self.stats.inc("fault_crash");
        }
        snapshot
    }

    pub fn push(&mut self, at: u64, kind: EvKind) {
        self.seq += 1;
        self.queue.push(Reverse(Ev { at, orig: at, seq: self.seq, kind }));
    }
    /// re-queue an event that a stalled node could not take yet, keeping its original deadline as tie-breaker
    fn defer(&mut self, at: u64, orig: u64, kind: EvKind) {
        self.seq += 1;
        self.queue.push(Reverse(Ev { at, orig, seq: self.seq, kind }));
    }
    pub fn schedule_op(&mut self, at: u64, op_index: usize) {
        self.push(at, EvKind::Op(op_index));
    }
    pub fn peek_time(&self) -> Option<u64> {
        self.queue.peek().map(|e| e.0.at)
    }
    pub fn queue_len(&self) -> usize {
        self.queue.len()
    }

    /// Execute a call on a live node, route its effects, run its monitors.
    pub fn call(&mut self, addr: u16, input: Input) -> Option<CallRec> {
        let i = Self::idx(addr);
        let now = self.now;
        let codec = self.wc.codec;
        let p = self.procs[i].as_mut()?;
        if p.node.poisoned {
            return None;
        }
        let pre = p.obs.clone();
        let rec = p.node.call(input);
        if let Some(msg) = &rec.panic {
            self.violations.push(Violation { property: "C06", tag: crate::script::panic_tag(msg), detail: format!("node {addr}: {} panicked: {msg}", rec.input.kind()), at: now });
            return Some(rec);
        }
        let post = p.node.obs();
        let mut vs = Vec::new();
        if rec.conflict_contract_breaches > 0 {
            vs.push(Violation { property: "C09", tag: "C09/win-addr-conflict-asked-outside-its-contract".into(), detail: format!("{}: Identity::win_addr_conflict was called {} time(s) for identities that do not share an address or for an identity against itself (the bundled SocketAddr identities panic there)", rec.input.kind(), rec.conflict_contract_breaches), at: now });
        }
        if let Some(m) = &rec.twin_mismatch {
            vs.push(Violation { property: "C08", tag: "C08/accumulating-runtime-differs".into(), detail: format!("{}: {m}", rec.input.kind()), at: now });
        }
        if p.node.twin.is_some() {
            self.stats.inc("c08_accumulating_runtime_twin_calls");
        }
        p.monitors.step(&pre, &rec, &post, now, &mut vs, &mut self.stats);
        p.obs = post;
        let epoch = p.epoch;
        for v in vs.iter_mut() {
            v.detail = format!("node {addr}: {}", v.detail);
        }
        self.violations.extend(vs);
        self.log.u(now);
        self.log.u(addr as u64);
        self.sig.u(addr as u64);
        hash_call(&mut self.log, &mut self.sig, &rec, codec);
        if let Res::Err(e) = rec.result {
            self.errors.push((now, addr, rec.input.kind(), e));
            self.stats.inc(&format!("result_err_{e:?}"));
        }
        self.stats.inc("calls");
        if crate::script::trace_on() {
            eprintln!("t={:.6}s node {addr}: {}", now as f64 / 1e9, crate::script::describe_input(&rec.input, codec));
            eprintln!("    -> {:?}", rec.result);
            for e in &rec.fx {
                eprintln!("    {}", crate::script::describe_effect(e, codec));
            }
        }
        // remember what every Feed could have told its receiver
        for (to, data) in rec.sends() {
            if let Ok(pd) = parse_datagram(codec, data) {
                if matches!(pd.header.message, foca::Message::Feed) {
                    let known: Vec<u16> = self.procs[i].as_ref().map(|p| p.obs.active.iter().map(|m| m.id().addr).collect()).unwrap_or_default();
                    self.feed_log.push((addr, to.addr, known));
                }
            }
        }
        // route effects
        let fx = rec.fx.clone();
        for e in fx {
            match e {
                Effect::Send { to, data } => self.send(addr, to, data),
                Effect::Sched { timer, after } => {
                    let ns = after.as_nanos().min((1u128 << 58) as u128) as u64;
                    let ns = ns.saturating_mul(self.skew_ppt[i]) / 1000 + self.lag_ns[i];
                    self.push(now.saturating_add(ns), EvKind::Timer { addr, proc_epoch: epoch, timer });
                }
                Effect::Notify(n) => self.notes.push((now, addr, n)),
            }
        }
        Some(rec)
    }

    fn send(&mut self, from: u16, to: SimId, data: Vec<u8>) {
        let idx = self.dgrams_sent;
        self.dgrams_sent += 1;
        self.stats.inc("datagrams_sent");
        if data.len() == self.wc.cfg.max_packet_size.get() {
            self.stats.inc("datagrams_filled_to_max_packet_size");
        }
        let n = self.wc.n;
        if to.addr == 0 || to.addr as usize > n {
            self.stats.inc("datagrams_to_unknown_address");
            return;
        }
        let (s, d) = (Self::idx(from), Self::idx(to.addr));
        let k = self.link_count[s * n + d];
        self.link_count[s * n + d] += 1;
        let link = ((from as u64) << 16) | to.addr as u64;
        if self.drop_idx.contains(&idx) {
            self.stats.inc("fault_drop_by_index");
            if self.record_kinds {
                if let Ok(p) = parse_datagram(self.wc.codec, &data) {
                    self.dropped_kinds.push(crate::codec::msg_kind(&p.header.message));
                }
            }
            return;
        }
        let net = self.wc.net.clone();
        if net.drop_ppm > 0 && draw(self.seed, mix3(name_hash("drop"), link, 0), k) % 1_000_000 < net.drop_ppm {
            self.stats.inc("fault_drop_random");
            return;
        }
        let span = net.lat_max_ns - net.lat_min_ns + 1;
        let mut lat = net.lat_min_ns + draw(self.seed, mix3(name_hash("lat"), link, 0), k) % span;
        if net.spike_ppm > 0 && net.spike_max_ns > 0 && draw(self.seed, mix3(name_hash("spike"), link, 0), k) % 1_000_000 < net.spike_ppm {
            lat += draw(self.seed, mix3(name_hash("spike-len"), link, 0), k) % net.spike_max_ns;
            self.stats.inc("fault_delay_spike");
        }
        let mut to = to;
        if net.misdeliver_ppm > 0 && n > 1 && draw(self.seed, mix3(name_hash("misdeliver"), link, 0), k) % 1_000_000 < net.misdeliver_ppm {
            let other = 1 + (draw(self.seed, mix3(name_hash("misdeliver-to"), link, 0), k) % (n as u64 - 1)) as u16;
            to.addr = if other >= to.addr { other + 1 } else { other };
            self.stats.inc("fault_misdelivery");
        }
        let mut payload = data;
        let mut damaged = false;
        if net.corrupt_ppm > 0 && draw(self.seed, mix3(name_hash("corrupt"), link, 0), k) % 1_000_000 < net.corrupt_ppm && !payload.is_empty() {
            let r = draw(self.seed, mix3(name_hash("corrupt-how"), link, 0), k);
            match r % 3 {
                0 => {
                    let pos = (r >> 8) as usize % payload.len();
                    payload[pos] ^= 1 << ((r >> 40) % 8);
                }
                1 => {
                    let cut = (r >> 8) as usize % payload.len();
                    payload.truncate(cut);
                }
                _ => payload.extend_from_slice(&(r >> 8).to_le_bytes()[..1 + ((r >> 3) % 4) as usize]),
            }
            damaged = true;
            self.stats.inc("fault_corrupt");
        }
        if net.dup_ppm > 0 && draw(self.seed, mix3(name_hash("dup"), link, 0), k) % 1_000_000 < net.dup_ppm {
            let lat2 = net.lat_min_ns + draw(self.seed, mix3(name_hash("lat-dup"), link, 0), k) % span;
            self.stats.inc("fault_duplicate");
            self.push(self.now + lat + lat2, EvKind::Deliver { to_addr: to.addr, from_addr: from, data: payload.clone(), idx, damaged });
        }
        if net.replay_ppm > 0 && net.replay_max_ns > 0 && draw(self.seed, mix3(name_hash("replay"), link, 0), k) % 1_000_000 < net.replay_ppm {
            let later = draw(self.seed, mix3(name_hash("replay-after"), link, 0), k) % net.replay_max_ns;
            self.stats.inc("fault_late_replay");
            self.push(self.now + lat + later, EvKind::Deliver { to_addr: to.addr, from_addr: from, data: payload.clone(), idx, damaged });
        }
        self.push(self.now + lat, EvKind::Deliver { to_addr: to.addr, from_addr: from, data: payload, idx, damaged });
    }

    /// Process the next event. Returns Ok(None) when the queue is empty; plan operations are
    /// handed back to the scenario as Err(op index).
    pub fn step(&mut self) -> Result<Option<Option<StepInfo>>, usize> {
        if self.events > self.max_events || self.queue.len() > 2_000_000 {
            if !self.runaway {
                self.runaway = true;
                self.violations.push(Violation {
                    property: "C18",
                    tag: "C18/event-storm-in-cluster-run".into(),
                    detail: format!("{} events processed, {} queued at t={}ms: the run was cut short", self.events, self.queue.len(), self.now / MS),
                    at: self.now,
                });
            }
            self.queue.clear();
            return Ok(None);
        }
        let Some(Reverse(ev)) = self.queue.pop() else { return Ok(None) };
        if ev.at > self.now {
            self.now = ev.at;
        }
        match ev.kind {
            EvKind::Op(i) => Err(i),
            EvKind::Deliver { to_addr, from_addr, data, idx, damaged } => {
                let (s, d) = (Self::idx(from_addr), Self::idx(to_addr));
                if self.blocked[s][d] {
                    self.stats.inc("fault_partition_drop");
                    return Ok(Some(None));
                }
                if self.procs[d].is_none() {
                    self.stats.inc("datagrams_to_dead_process");
                    return Ok(Some(None));
                }
                if self.stalled_until[d] > self.now {
                    let at = self.stalled_until[d];
                    self.stats.inc("fault_stall_deferred");
                    self.defer(at, ev.orig, EvKind::Deliver { to_addr, from_addr, data, idx, damaged });
                    return Ok(Some(None));
                }
                self.events += 1;
                self.stats.inc("datagrams_delivered");
                let rec = self.call(to_addr, Input::Data(data));
                // peer acceptance (C07): an undamaged datagram is never rejected as undecodable/malformed/too big
                if let Some(rec) = &rec {
                    if !damaged {
                        if let Res::Err(e @ (ErrKind::Decode | ErrKind::MalformedPacket | ErrKind::DataTooBig)) = rec.result {
                            self.violations.push(Violation {
                                property: "C07",
                                tag: "C07/peer-rejected".into(),
                                detail: format!("node {to_addr} rejected an undamaged datagram from node {from_addr} with {e:?}"),
                                at: self.now,
                            });
                        }
                    }
                }
                Ok(Some(rec.map(|rec| StepInfo { at: self.now, addr: to_addr, rec, dgram: Some(idx) })))
            }
            EvKind::Timer { addr, proc_epoch, timer } => {
                let i = Self::idx(addr);
                match &self.procs[i] {
                    Some(p) if p.epoch == proc_epoch => {}
                    _ => return Ok(Some(None)),
                }
                if self.stalled_until[i] > self.now {
                    let at = self.stalled_until[i];
                    self.stats.inc("fault_stall_deferred");
                    self.defer(at, ev.orig, EvKind::Timer { addr, proc_epoch, timer });
                    return Ok(Some(None));
                }
                self.events += 1;
                self.stats.inc("timers_fired");
                let rec = self.call(addr, Input::Timer(timer));
                // the world delivers every timer exactly once, in deadline order (however late): C13 says
                // handle_timer never returns an error then
                let wrapped = self.procs[i].as_ref().is_some_and(|p| p.monitors.token_wrapped);
                if let (Some(r), false) = (&rec, wrapped) {
                    if let Res::Err(e) = r.result {
                        self.violations.push(Violation {
                            property: "C13",
                            tag: "C13/handle-timer-error".into(),
                            detail: format!("node {addr}: {} returned {e:?} although timers are delivered exactly once in deadline order", r.input.kind()),
                            at: self.now,
                        });
                    }
                }
                Ok(Some(rec.map(|rec| StepInfo { at: self.now, addr, rec, dgram: None })))
            }
        }
    }

    pub fn partition(&mut self, groups: &[Vec<u16>]) {
        let n = self.wc.n;
        let mut g = vec![usize::MAX; n];
        for (gi, grp) in groups.iter().enumerate() {
            for a in grp {
                g[Self::idx(*a)] = gi;
            }
        }
        for s in 0..n {
            for d in 0..n {
                self.blocked[s][d] = g[s] != g[d];
            }
        }
        self.stats.inc("fault_partition");
    }
    pub fn heal(&mut self) {
        for row in self.blocked.iter_mut() {
            for b in row.iter_mut() {
                *b = false;
            }
        }
        self.stats.inc("fault_heal");
    }

    /// Active view of a node as a sorted list of identities
    pub fn view(&self, addr: u16) -> Vec<SimId> {
        self.proc(addr).map(|p| p.obs.active.iter().map(|m| *m.id()).collect()).unwrap_or_default()
    }

    /// Does every live node list exactly the current identity of every other live node?
    pub fn converged(&self) -> bool {
        let live = self.live_addrs();
        for a in &live {
            let mut want: Vec<SimId> = live.iter().filter(|b| *b != a).map(|b| self.id_of(*b)).collect();
            want.sort();
            if self.view(*a) != want {
                return false;
            }
        }
        true
    }

    /// Bootstrap: every node learns the full membership through apply_many (no broadcast).
    pub fn bootstrap_full(&mut self) {
        let addrs = self.live_addrs();
        let all: Vec<Member<SimId>> = addrs.iter().map(|a| Member::alive(self.id_of(*a))).collect();
        for a in addrs {
            let others: Vec<Member<SimId>> = all.iter().filter(|m| m.id().addr != a).cloned().collect();
            self.call(a, Input::ApplyMany(others, false));
        }
    }
}

/// A fault-free configuration envelope helper: durations in ms.
pub fn cluster_config(period_ms: u64, rtt_ms: u64, suspect_ms: u64, k: usize, max_tx: u8, mps: usize) -> Config {
    let mut c = Config::simple();
    c.probe_period = std::time::Duration::from_millis(period_ms);
    c.probe_rtt = std::time::Duration::from_millis(rtt_ms);
    c.suspect_to_down_after = std::time::Duration::from_millis(suspect_ms);
    c.remove_down_after = std::time::Duration::from_secs(24 * 3600);
    c.num_indirect_probes = std::num::NonZeroUsize::new(k).unwrap();
    c.max_transmissions = std::num::NonZeroU8::new(max_tx).unwrap();
    c.max_packet_size = std::num::NonZeroUsize::new(mps).unwrap();
    c
}
