fn main(){ println!("{}", serde_json::json!({"a":1})); }
