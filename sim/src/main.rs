//! focasim — deterministic simulation checks for caio/foca. See /verif/DESIGN.md.
mod chaos;
mod checks;
mod exhaust;
mod codec;
mod frame;
mod handler;
mod hist;
mod id;
mod models;
mod monitors;
mod node;
mod prng;
mod script;
mod world;

use frame::Tier;

fn usage() -> ! {
    eprintln!("usage: focasim <ID> [--tier quick|thorough] [--replay <file>] | focasim list");
    std::process::exit(2);
}

fn main() {
    let args: Vec<String> = std::env::args().skip(1).collect();
    if args.is_empty() {
        usage();
    }
    let defs = checks::all();
    if args[0] == "list" {
        for d in &defs {
            println!("{}", d.property);
        }
        return;
    }
    if args[0] == "c20-child" {
        std::process::exit(checks::c20::child_decode(args.get(1).map(|s| s.as_str()).unwrap_or("")));
    }
    if args[0] == "hashdump" {
        let n: u64 = args.get(1).and_then(|s| s.parse().ok()).unwrap_or(200);
        let seed: u64 = std::env::var("VERIF_SEED").ok().and_then(|s| s.parse().ok()).unwrap_or(1);
        for d in &defs {
            if args.get(2).map(|x| x == d.property).unwrap_or(true) {
                frame::hashdump(d, n, Tier::Quick, seed);
            }
        }
        return;
    }
    let id = args[0].clone();
    let mut tier = match std::env::var("VERIF_TIER").as_deref() {
        Ok("thorough") => Tier::Thorough,
        _ => Tier::Quick,
    };
    let mut replay: Option<String> = None;
    let mut i = 1;
    while i < args.len() {
        match args[i].as_str() {
            "--tier" => {
                i += 1;
                tier = match args.get(i).map(|s| s.as_str()) {
                    Some("quick") => Tier::Quick,
                    Some("thorough") => Tier::Thorough,
                    _ => usage(),
                };
            }
            "--replay" => {
                i += 1;
                replay = Some(args.get(i).cloned().unwrap_or_else(|| usage()));
            }
            _ => usage(),
        }
        i += 1;
    }
    let seed: u64 = std::env::var("VERIF_SEED").ok().and_then(|s| s.parse().ok()).unwrap_or(1);
    let Some(def) = defs.iter().find(|d| d.property == id) else {
        eprintln!("unknown check {id}");
        std::process::exit(2);
    };
    node::install_quiet_panic_hook();
    let code = match replay {
        Some(path) => frame::replay(def, &path),
        None => frame::run_check(def, tier, seed),
    };
    std::process::exit(code);
}
