//! Codecs handed to the simulated instances: a hand-written strict wire codec (never panics,
//! checks every length and tag) and the two bundled serde codecs, behind one enum so that the
//! node type is not generic.

use crate::id::SimId;
use bytes::{Buf, BufMut};
use foca::{BincodeCodec, Codec, Header, Member, Message, PostcardCodec, State};

#[derive(Debug, Clone)]
pub struct CodecErr(pub String);
impl std::fmt::Display for CodecErr {
    fn fmt(&self, f: &mut std::fmt::Formatter<'_>) -> std::fmt::Result {
        f.write_str(&self.0)
    }
}
impl std::error::Error for CodecErr {}

fn e(s: &str) -> CodecErr {
    CodecErr(s.to_string())
}

#[derive(Clone, Copy, Debug, PartialEq, Eq, serde::Serialize, serde::Deserialize)]
pub enum CodecKind {
    /// strict hand-written codec; encode checks space first, writes nothing on failure
    Wire,
    /// same, but a failing encode_member writes a prefix before failing (exercises truncate(pos))
    WireDirty,
    Bincode,
    Postcard,
    /// the strict codec, but the one owned by an instance fails about one call in twelve (encode or
    /// decode, header or member) for no reason: an injected fault ("the codec returns an error"). Only
    /// the no-panic check uses it; helpers and monitors built with `AnyCodec::new` never fail.
    WireFlaky,
}

impl CodecKind {
    pub fn is_wire(self) -> bool {
        matches!(self, CodecKind::Wire | CodecKind::WireDirty | CodecKind::WireFlaky)
    }
}

#[derive(Clone, Copy, Debug)]
pub struct AnyCodec {
    pub kind: CodecKind,
    /// Some(seed): this is an instance's own codec of kind WireFlaky
    flaky: Option<u64>,
    calls: u64,
}

impl AnyCodec {
    pub fn new(kind: CodecKind) -> Self {
        AnyCodec { kind, flaky: None, calls: 0 }
    }
    /// The codec handed to a simulated instance (the only one that injects failures)
    pub fn for_instance(kind: CodecKind, seed: u64) -> Self {
        AnyCodec { kind, flaky: if kind == CodecKind::WireFlaky { Some(seed) } else { None }, calls: 0 }
    }
    fn injected_failure(&mut self, what: &str) -> Result<(), CodecErr> {
        if let Some(seed) = self.flaky {
            self.calls += 1;
            if crate::prng::mix2(seed ^ 0xf1a4_c0dec, self.calls) % 12 == 0 {
                return Err(CodecErr(format!("injected codec failure in {what}")));
            }
        }
        Ok(())
    }
}

fn id_len(id: &SimId) -> usize {
    if crate::id::policy().var_ids {
        6 + 1 + id.meta_len()
    } else {
        6
    }
}

fn put_id(id: &SimId, b: &mut Vec<u8>) {
    b.put_u16(id.addr);
    b.put_u32(id.gen);
    if crate::id::policy().var_ids {
        let n = id.meta_len();
        b.put_u8(n as u8);
        for i in 0..n {
            b.put_u8(id.meta_byte(i));
        }
    }
}

fn get_id(b: &mut impl Buf) -> Result<SimId, CodecErr> {
    if b.remaining() < 6 {
        return Err(e("short id"));
    }
    let addr = b.get_u16();
    let gen = b.get_u32();
    let id = SimId::new(addr, gen);
    if crate::id::policy().var_ids {
        if b.remaining() < 1 {
            return Err(e("short meta len"));
        }
        let n = b.get_u8() as usize;
        if n != id.meta_len() {
            return Err(e("bad meta len"));
        }
        if b.remaining() < n {
            return Err(e("short meta"));
        }
        for i in 0..n {
            if b.get_u8() != id.meta_byte(i) {
                return Err(e("bad meta"));
            }
        }
    }
    Ok(id)
}

pub fn wire_header_bytes(h: &Header<SimId>) -> Vec<u8> {
    let mut tmp = Vec::with_capacity(32);
    put_id(&h.src, &mut tmp);
    tmp.put_u16(h.src_incarnation);
    put_id(&h.dst, &mut tmp);
    match &h.message {
        Message::Ping(n) => {
            tmp.put_u8(1);
            tmp.put_u8(*n);
        }
        Message::Ack(n) => {
            tmp.put_u8(2);
            tmp.put_u8(*n);
        }
        Message::PingReq { target, probe_number } => {
            tmp.put_u8(3);
            put_id(target, &mut tmp);
            tmp.put_u8(*probe_number);
        }
        Message::IndirectPing { origin, probe_number } => {
            tmp.put_u8(4);
            put_id(origin, &mut tmp);
            tmp.put_u8(*probe_number);
        }
        Message::IndirectAck { target, probe_number } => {
            tmp.put_u8(5);
            put_id(target, &mut tmp);
            tmp.put_u8(*probe_number);
        }
        Message::ForwardedAck { origin, probe_number } => {
            tmp.put_u8(6);
            put_id(origin, &mut tmp);
            tmp.put_u8(*probe_number);
        }
        Message::Gossip => tmp.put_u8(7),
        Message::Announce => tmp.put_u8(8),
        Message::Feed => tmp.put_u8(9),
        Message::Broadcast => tmp.put_u8(10),
        Message::TurnUndead => tmp.put_u8(11),
    }
    tmp
}

fn wire_decode_header(b: &mut impl Buf) -> Result<Header<SimId>, CodecErr> {
    let src = get_id(b)?;
    if b.remaining() < 2 {
        return Err(e("short inc"));
    }
    let src_incarnation = b.get_u16();
    let dst = get_id(b)?;
    if b.remaining() < 1 {
        return Err(e("short tag"));
    }
    let k = b.get_u8();
    let message = match k {
        1 | 2 => {
            if b.remaining() < 1 {
                return Err(e("short probe number"));
            }
            let n = b.get_u8();
            if k == 1 {
                Message::Ping(n)
            } else {
                Message::Ack(n)
            }
        }
        3..=6 => {
            let id = get_id(b)?;
            if b.remaining() < 1 {
                return Err(e("short probe number"));
            }
            let n = b.get_u8();
            match k {
                3 => Message::PingReq { target: id, probe_number: n },
                4 => Message::IndirectPing { origin: id, probe_number: n },
                5 => Message::IndirectAck { target: id, probe_number: n },
                _ => Message::ForwardedAck { origin: id, probe_number: n },
            }
        }
        7 => Message::Gossip,
        8 => Message::Announce,
        9 => Message::Feed,
        10 => Message::Broadcast,
        11 => Message::TurnUndead,
        _ => return Err(e("bad kind")),
    };
    Ok(Header { src, src_incarnation, dst, message })
}

pub fn wire_member_bytes(m: &Member<SimId>) -> Vec<u8> {
    let mut tmp = Vec::with_capacity(id_len(m.id()) + 3);
    put_id(m.id(), &mut tmp);
    tmp.put_u16(m.incarnation());
    tmp.put_u8(match m.state() {
        State::Alive => 0,
        State::Suspect => 1,
        State::Down => 2,
    });
    tmp
}

fn wire_decode_member(b: &mut impl Buf) -> Result<Member<SimId>, CodecErr> {
    let id = get_id(b)?;
    if b.remaining() < 3 {
        return Err(e("short member"));
    }
    let inc = b.get_u16();
    let st = match b.get_u8() {
        0 => State::Alive,
        1 => State::Suspect,
        2 => State::Down,
        _ => return Err(e("bad state")),
    };
    Ok(Member::new(id, inc, st))
}

impl Codec<SimId> for AnyCodec {
    type Error = CodecErr;

    fn encode_header(&mut self, h: &Header<SimId>, mut buf: impl BufMut) -> Result<(), CodecErr> {
        self.injected_failure("encode_header")?;
        match self.kind {
            CodecKind::Wire | CodecKind::WireDirty | CodecKind::WireFlaky => {
                let tmp = wire_header_bytes(h);
                if buf.remaining_mut() < tmp.len() {
                    return Err(e("no space for header"));
                }
                buf.put_slice(&tmp);
                Ok(())
            }
            CodecKind::Bincode => BincodeCodec(bincode::config::standard())
                .encode_header(h, buf)
                .map_err(|x| CodecErr(format!("bincode: {x}"))),
            CodecKind::Postcard => {
                PostcardCodec.encode_header(h, buf).map_err(|x| CodecErr(format!("postcard: {x}")))
            }
        }
    }

    fn decode_header(&mut self, mut buf: impl Buf) -> Result<Header<SimId>, CodecErr> {
        self.injected_failure("decode_header")?;
        match self.kind {
            CodecKind::Wire | CodecKind::WireDirty | CodecKind::WireFlaky => wire_decode_header(&mut buf),
            CodecKind::Bincode => BincodeCodec(bincode::config::standard())
                .decode_header(buf)
                .map_err(|x| CodecErr(format!("bincode: {x}"))),
            CodecKind::Postcard => {
                PostcardCodec.decode_header(buf).map_err(|x| CodecErr(format!("postcard: {x}")))
            }
        }
    }

    fn encode_member(&mut self, m: &Member<SimId>, mut buf: impl BufMut) -> Result<(), CodecErr> {
        self.injected_failure("encode_member")?;
        match self.kind {
            CodecKind::Wire | CodecKind::WireFlaky => {
                let tmp = wire_member_bytes(m);
                if buf.remaining_mut() < tmp.len() {
                    return Err(e("no space for member"));
                }
                buf.put_slice(&tmp);
                Ok(())
            }
            CodecKind::WireDirty => {
                let tmp = wire_member_bytes(m);
                let room = buf.remaining_mut();
                if room < tmp.len() {
                    // leave the buffer dirty on purpose: foca must roll this back
                    buf.put_slice(&tmp[..room]);
                    return Err(e("no space for member (dirty)"));
                }
                buf.put_slice(&tmp);
                Ok(())
            }
            CodecKind::Bincode => BincodeCodec(bincode::config::standard())
                .encode_member(m, buf)
                .map_err(|x| CodecErr(format!("bincode: {x}"))),
            CodecKind::Postcard => {
                PostcardCodec.encode_member(m, buf).map_err(|x| CodecErr(format!("postcard: {x}")))
            }
        }
    }

    fn decode_member(&mut self, mut buf: impl Buf) -> Result<Member<SimId>, CodecErr> {
        self.injected_failure("decode_member")?;
        match self.kind {
            CodecKind::Wire | CodecKind::WireDirty | CodecKind::WireFlaky => wire_decode_member(&mut buf),
            CodecKind::Bincode => BincodeCodec(bincode::config::standard())
                .decode_member(buf)
                .map_err(|x| CodecErr(format!("bincode: {x}"))),
            CodecKind::Postcard => {
                PostcardCodec.decode_member(buf).map_err(|x| CodecErr(format!("postcard: {x}")))
            }
        }
    }
}

/// Encode helpers used by generators and scripted peers (unbounded buffer).
pub fn enc_header(kind: CodecKind, h: &Header<SimId>) -> Vec<u8> {
    let mut v = Vec::new();
    AnyCodec::new(kind).encode_header(h, &mut v).expect("unbounded encode");
    v
}
pub fn enc_member(kind: CodecKind, m: &Member<SimId>) -> Vec<u8> {
    let mut v = Vec::new();
    // a dirty codec behaves like the clean one when there is room
    AnyCodec::new(kind).encode_member(m, &mut v).expect("unbounded encode");
    v
}

/// Build a datagram the way the documented grammar says.
pub fn build_datagram(
    kind: CodecKind,
    h: &Header<SimId>,
    members: Option<&[Member<SimId>]>,
    items: &[Vec<u8>],
) -> Vec<u8> {
    let mut v = enc_header(kind, h);
    if let Some(ms) = members {
        v.put_u16(ms.len() as u16);
        for m in ms {
            v.extend_from_slice(&enc_member(kind, m));
        }
    }
    for it in items {
        v.put_u16(it.len() as u16);
        v.extend_from_slice(it);
    }
    v
}

// ---------------------------------------------------------------------------------------------
// Independent datagram parser (DESIGN 4.1), written from the Header documentation.

#[derive(Debug, Clone)]
pub struct Parsed {
    pub header: Header<SimId>,
    pub header_len: usize,
    /// None when the datagram has no member section
    pub members: Option<Vec<(Member<SimId>, std::ops::Range<usize>)>>,
    pub items: Vec<std::ops::Range<usize>>,
}

pub fn msg_piggybacks(m: &Message<SimId>) -> bool {
    !matches!(m, Message::Announce | Message::TurnUndead | Message::Broadcast)
}

pub fn msg_kind(m: &Message<SimId>) -> &'static str {
    match m {
        Message::Ping(_) => "Ping",
        Message::Ack(_) => "Ack",
        Message::PingReq { .. } => "PingReq",
        Message::IndirectPing { .. } => "IndirectPing",
        Message::IndirectAck { .. } => "IndirectAck",
        Message::ForwardedAck { .. } => "ForwardedAck",
        Message::Gossip => "Gossip",
        Message::Announce => "Announce",
        Message::Feed => "Feed",
        Message::Broadcast => "Broadcast",
        Message::TurnUndead => "TurnUndead",
    }
}

pub const MSG_KINDS: [&str; 11] = [
    "Ping",
    "Ack",
    "PingReq",
    "IndirectPing",
    "IndirectAck",
    "ForwardedAck",
    "Gossip",
    "Announce",
    "Feed",
    "Broadcast",
    "TurnUndead",
];

pub fn msg_kind_idx(m: &Message<SimId>) -> usize {
    let k = msg_kind(m);
    MSG_KINDS.iter().position(|x| *x == k).unwrap()
}

/// Parse a datagram by the documented grammar: header; for piggybacking kinds, if bytes remain,
/// a big-endian u16 `n` followed by exactly `n` members; then zero or more `u16 len | len bytes`
/// items with `len >= 1`; nothing else.
pub fn parse_datagram(kind: CodecKind, data: &[u8]) -> Result<Parsed, String> {
    let mut codec = AnyCodec::new(kind);
    let mut cur: &[u8] = data;
    let header = codec.decode_header(&mut cur).map_err(|x| format!("header: {x}"))?;
    let header_len = data.len() - cur.len();
    let mut members = None;
    if msg_piggybacks(&header.message) && !cur.is_empty() {
        if cur.len() < 2 {
            return Err(format!("{} stray byte(s) where a member count was expected", cur.len()));
        }
        let n = cur.get_u16() as usize;
        let mut v = Vec::with_capacity(n);
        for i in 0..n {
            let start = data.len() - cur.len();
            let m = codec
                .decode_member(&mut cur)
                .map_err(|x| format!("member {i} of {n}: {x}"))?;
            let end = data.len() - cur.len();
            v.push((m, start..end));
        }
        members = Some(v);
    }
    let mut items = Vec::new();
    while !cur.is_empty() {
        if cur.len() < 2 {
            return Err("stray byte where an item length was expected".into());
        }
        let len = cur.get_u16() as usize;
        if len == 0 {
            return Err("empty custom broadcast item".into());
        }
        if cur.len() < len {
            return Err(format!("item length {len} exceeds the {} bytes left", cur.len()));
        }
        let start = data.len() - cur.len();
        cur.advance(len);
        items.push(start..start + len);
    }
    if matches!(header.message, Message::Announce | Message::TurnUndead) && data.len() != header_len {
        return Err("Announce/TurnUndead carries data after the header".into());
    }
    Ok(Parsed { header, header_len, members, items })
}
