//! Recording runtime and the simulated BroadcastHandler.

use crate::id::SimId;
use foca::{BroadcastHandler, Invalidates, Notification, OwnedNotification, Runtime, Timer};
use std::cell::RefCell;
use std::rc::Rc;
use std::time::Duration;

#[derive(Debug, Clone, PartialEq, Eq)]
pub enum Effect {
    Send { to: SimId, data: Vec<u8> },
    Sched { timer: Timer<SimId>, after: Duration },
    Notify(OwnedNotification<SimId>),
}

/// A direct `Runtime`: appends every effect to one list, in call order.
#[derive(Default, Debug)]
pub struct Rec {
    pub fx: Vec<Effect>,
}

impl Runtime<SimId> for Rec {
    fn notify(&mut self, n: Notification<'_, SimId>) {
        self.fx.push(Effect::Notify(n.to_owned()));
    }
    fn send_to(&mut self, to: SimId, data: &[u8]) {
        self.fx.push(Effect::Send { to, data: data.to_vec() });
    }
    fn submit_after(&mut self, timer: Timer<SimId>, after: Duration) {
        self.fx.push(Effect::Sched { timer, after });
    }
}

// ---------------------------------------------------------------------------------------------

/// Invalidation relation between broadcast keys, chosen per run.
#[derive(Clone, Copy, Debug, PartialEq, Eq, serde::Serialize, serde::Deserialize)]
pub enum Rel {
    /// a new item invalidates every pending item with the same key
    SameKey,
    /// ... only pending items with the same key and an older version
    SameKeyOlder,
    /// arbitrary relation: bit (a%8)*8 + (b%8) set means "key a invalidates key b"
    Table(u64),
    /// nothing invalidates anything
    Nothing,
}

#[derive(Clone, Copy, Debug)]
pub struct SimKey {
    pub key: u8,
    pub version: u8,
    pub rel: Rel,
}

pub fn rel_invalidates(rel: Rel, a_key: u8, a_ver: u8, b_key: u8, b_ver: u8) -> bool {
    match rel {
        Rel::SameKey => a_key == b_key,
        Rel::SameKeyOlder => a_key == b_key && b_ver < a_ver,
        Rel::Table(t) => (t >> (((a_key % 8) as u64) * 8 + (b_key % 8) as u64)) & 1 == 1,
        Rel::Nothing => false,
    }
}

impl Invalidates for SimKey {
    fn invalidates(&self, other: &Self) -> bool {
        rel_invalidates(self.rel, self.key, self.version, other.key, other.version)
    }
}

#[derive(Debug)]
pub struct HandlerErr;
impl std::fmt::Display for HandlerErr {
    fn fmt(&self, f: &mut std::fmt::Formatter<'_>) -> std::fmt::Result {
        f.write_str("item too short")
    }
}
impl std::error::Error for HandlerErr {}

#[derive(Clone, Copy, Debug, PartialEq, Eq, serde::Serialize, serde::Deserialize)]
pub struct HandlerCfg {
    pub rel: Rel,
    /// bit (addr % 64): should_add_broadcast_data is true for this address
    pub allow_mask: u64,
    /// items shorter than 2 bytes: true = error, false = ignored
    pub err_on_short: bool,
}

impl HandlerCfg {
    pub const fn default_cfg() -> Self {
        HandlerCfg { rel: Rel::SameKey, allow_mask: u64::MAX, err_on_short: true }
    }
    pub fn allows(&self, addr: u16) -> bool {
        (self.allow_mask >> (addr % 64)) & 1 == 1
    }
}

#[derive(Debug, Clone, PartialEq, Eq)]
pub struct HCall {
    pub data: Vec<u8>,
    pub sender: Option<SimId>,
    /// Some(true) accepted, Some(false) stale/ignored, None error
    pub accepted: Option<bool>,
}

#[derive(Default, Debug)]
pub struct HLog {
    pub calls: Vec<HCall>,
}

/// Items are `[key, version, payload...]`; an item is accepted iff its version is newer than the
/// one stored for its key (a "set key" register), so dissemination terminates.
pub struct SimHandler {
    pub cfg: HandlerCfg,
    stored: [Option<u8>; 256],
    pub log: Rc<RefCell<HLog>>,
}

impl SimHandler {
    pub fn new(cfg: HandlerCfg) -> (Self, Rc<RefCell<HLog>>) {
        let log = Rc::new(RefCell::new(HLog::default()));
        (SimHandler { cfg, stored: [None; 256], log: log.clone() }, log)
    }
}

impl BroadcastHandler<SimId> for SimHandler {
    type Key = SimKey;
    type Error = HandlerErr;

    fn receive_item(&mut self, data: &[u8], sender: Option<&SimId>) -> Result<Option<SimKey>, HandlerErr> {
        let mut call = HCall { data: data.to_vec(), sender: sender.copied(), accepted: Some(false) };
        if data.len() < 2 {
            if self.cfg.err_on_short {
                call.accepted = None;
                self.log.borrow_mut().calls.push(call);
                return Err(HandlerErr);
            }
            self.log.borrow_mut().calls.push(call);
            return Ok(None);
        }
        let (key, version) = (data[0], data[1]);
        let fresh = match self.stored[key as usize] {
            None => true,
            Some(v) => version > v,
        };
        if fresh {
            self.stored[key as usize] = Some(version);
            call.accepted = Some(true);
            self.log.borrow_mut().calls.push(call);
            Ok(Some(SimKey { key, version, rel: self.cfg.rel }))
        } else {
            self.log.borrow_mut().calls.push(call);
            Ok(None)
        }
    }

    fn should_add_broadcast_data(&self, member: &SimId) -> bool {
        self.cfg.allows(member.addr)
    }
}
