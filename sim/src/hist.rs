//! Adversarial single-instance histories: one real instance, the simulator generates datagrams
//! of every kind (valid, mutated, random), timers (genuine in any order, crafted, duplicated) and
//! API calls over a small identity domain, with all monitors attached.

use crate::codec::{build_datagram, CodecKind};
use crate::frame::{Case, RunOut, Scenario, Tier, Violation};
use crate::handler::{HandlerCfg, Rel};
use crate::id::{Policy, RenewMode, SimId};
use crate::node::{ErrKind, Input, Res, Setup};
use crate::prng::Stream;
use crate::script::Driver;
use foca::{Config, Header, Member, Message, PeriodicParams, State, Timer};
use std::num::{NonZeroU8, NonZeroUsize};
use std::time::Duration;

#[derive(Clone, Copy, Debug, PartialEq, Eq, serde::Serialize, serde::Deserialize)]
pub enum TimerMode {
    /// genuine timers in any order, plus crafted, stale and duplicated ones
    Adversarial,
    /// every scheduled timer delivered exactly once, in deadline order (arbitrarily late)
    ExactDeadline,
    /// every scheduled timer delivered exactly once, in arbitrary order
    ExactAnyOrder,
}

#[derive(Clone, Debug, serde::Serialize, serde::Deserialize)]
pub struct HP {
    pub profile: String,
    pub setup: Setup,
    /// addresses 1..=addrs; the instance owns address 1
    pub addrs: u16,
    pub steps: usize,
    pub timer_mode: TimerMode,
    /// weights: [valid datagram, mutated datagram, random bytes, genuine timer, crafted timer,
    ///           duplicated timer, membership api, custom-broadcast api, identity/config api]
    pub weights: [u32; 9],
    /// allow set_config to choose any legal packet size (C06) instead of staying above the largest header
    pub wild_config: bool,
    /// before the generated history: this many idle -> active -> idle flaps (a member joins, goes Down, every
    /// timer is delivered, the member is forgotten), so that the 8-bit timer token is about to wrap
    #[serde(default)]
    pub warmup_flaps: u32,
    /// max_packet_size lies between the smallest two-identity header and the largest three-identity header of the
    /// identity domain: some sends fail with an encode error half-way (a legal configuration, yet outside the
    /// premise of the accounting properties: only C07 and C06 verdicts are recorded)
    #[serde(default)]
    pub tight_headers: bool,
    /// the warm-up epochs are identity changes (reset()) instead of idle flaps (become_disconnected())
    #[serde(default)]
    pub warmup_by_renewal: bool,
    /// before the generated history: a member joins and this many probe rounds are played in deadline order,
    /// each Ping answered, so that the 8-bit probe number is about to wrap
    #[serde(default)]
    pub warmup_probe_rounds: u32,
}

#[derive(Clone, Debug, serde::Serialize, serde::Deserialize)]
pub enum Step {
    In(Input),
    /// deliver the pending timer with the earliest deadline
    NextTimer,
    /// deliver the k-th pending timer (in issue order, modulo the number pending)
    AnyTimer(u64),
}

pub fn min_packet(setup: &Setup) -> usize {
    if setup.policy.var_ids || !setup.codec.is_wire() {
        120
    } else {
        24
    }
}

pub fn gen_config(s: &mut Stream, min_mps: usize, wild: bool) -> Config {
    let rtt_ms = s.range(1, 500);
    let period_ms = rtt_ms + 1 + s.range(0, 2000);
    let periodic = |s: &mut Stream| -> Option<PeriodicParams> {
        if s.chance(1, 2) {
            Some(PeriodicParams { frequency: Duration::from_millis(s.range(1, 5000)), num_members: NonZeroUsize::new(s.range(1, 4) as usize).unwrap() })
        } else {
            None
        }
    };
    let mps = if wild {
        match s.below(6) {
            0 => s.range(1, 40) as usize,
            1 => s.range(40, 300) as usize,
            2 => 1400,
            3 => s.range(65_530, 65_540) as usize,
            4 => s.range(65_541, 70_000) as usize,
            _ => s.range(min_mps as u64, 1400) as usize,
        }
    } else {
        match s.below(4) {
            0 => min_mps + s.range(0, 40) as usize,
            1 => min_mps + s.range(0, 200) as usize,
            2 => 1400,
            _ => s.range(min_mps as u64, 1400) as usize,
        }
    };
    Config {
        probe_period: Duration::from_millis(period_ms),
        probe_rtt: Duration::from_millis(rtt_ms),
        num_indirect_probes: NonZeroUsize::new(if wild && s.chance(1, 10) { s.range(5, 64) } else { s.range(1, 4) } as usize).unwrap(),
        max_transmissions: NonZeroU8::new(*s.pick(&[1u8, 1, 2, 3, 5, 10, 255])).unwrap(),
        suspect_to_down_after: Duration::from_millis(if wild && s.chance(1, 10) { 0 } else { s.range(1, 10_000) }),
        remove_down_after: if wild && s.chance(1, 10) { Duration::MAX } else { Duration::from_millis(s.range(0, 100_000)) },
        max_packet_size: NonZeroUsize::new(mps.max(1)).unwrap(),
        notify_down_members: s.chance(1, 2),
        periodic_announce: periodic(s),
        periodic_announce_to_down_members: periodic(s),
        periodic_gossip: periodic(s),
    }
}

pub fn gen_policy(s: &mut Stream) -> Policy {
    Policy {
        renew: *s.pick(&[RenewMode::Never, RenewMode::Next, RenewMode::Next, RenewMode::Next, RenewMode::Same, RenewMode::Losing]),
        mask: if s.chance(1, 2) { u64::MAX } else { s.next() },
        var_ids: s.chance(1, 3),
    }
}

pub fn gen_hcfg(s: &mut Stream) -> HandlerCfg {
    HandlerCfg {
        rel: match s.below(4) {
            0 => Rel::SameKey,
            1 => Rel::SameKeyOlder,
            2 => Rel::Table(s.next()),
            _ => Rel::Nothing,
        },
        allow_mask: if s.chance(1, 2) { u64::MAX } else { s.next() | s.next() },
        err_on_short: s.chance(1, 2),
    }
}

pub fn gen_codec(s: &mut Stream) -> CodecKind {
    *s.pick(&[CodecKind::Wire, CodecKind::Wire, CodecKind::WireDirty, CodecKind::Bincode, CodecKind::Postcard])
}

pub const OWN_GEN: u32 = 10;

pub fn gen_hp(seed: u64, profile: &str, tier: Tier) -> HP {
    let mut s = Stream::new(seed, "hist-params");
    let mut policy = gen_policy(&mut s);
    let mut codec = gen_codec(&mut s);
    // C10 only: renew() may yield an identity that is different yet does not win (a tie)
    let tie = profile == "C10" && policy.renew == RenewMode::Losing && seed % 2 == 0;
    if tie {
        policy.renew = RenewMode::Tie;
    }
    if profile == "C20" {
        codec = if s.chance(1, 2) { CodecKind::Bincode } else { CodecKind::Postcard };
    }
    let wild = profile == "C06";
    let mut setup = Setup { id: SimId::new(1, OWN_GEN), cfg: Config::simple(), codec, policy, hcfg: gen_hcfg(&mut s), rng_seed: s.next(), acc_twin: false };
    let min_mps = min_packet(&setup);
    setup.cfg = gen_config(&mut s, min_mps, wild);
    let long = matches!(tier, Tier::Thorough) && s.chance(1, 4);
    let steps = if long { s.range(200, 600) } else { s.range(20, 160) } as usize;
    let mut weights: [u32; 9] = [40, 6, 3, 25, 4, 3, 8, 6, 5];
    // swarm: knock out or boost random classes
    for w in weights.iter_mut() {
        match s.below(6) {
            0 => *w = 0,
            1 => *w *= 3,
            _ => {}
        }
    }
    weights[0] = weights[0].max(10);
    let mut timer_mode = TimerMode::Adversarial;
    match profile {
        "C13" => {
            timer_mode = if s.chance(1, 2) { TimerMode::ExactDeadline } else { TimerMode::ExactAnyOrder };
            weights[3] = weights[3].max(25);
            weights[4] = 0;
            weights[5] = 0;
            weights[8] = weights[8].max(5);
        }
        "C15" => {
            weights[0] = weights[0].max(40);
            weights[3] = weights[3].max(25);
            weights[6] = weights[6].max(8);
            weights[1] = weights[1].min(3);
            weights[2] = weights[2].min(2);
        }
        "C16" => {
            weights[7] = weights[7].max(20) * 2;
            weights[0] = weights[0].max(40);
            weights[3] = weights[3].max(15);
        }
        "C19" | "C11" | "C10" | "C09" | "C08" => {
            weights[3] = weights[3].max(10);
            weights[8] = weights[8].max(5);
        }
        "C20" | "C17" => {
            weights[1] = weights[1].max(6) * 3;
            weights[2] = weights[2].max(3) * 2;
        }
        "C06" => {
            weights[1] = weights[1].max(6) * 2;
            weights[2] = weights[2].max(3) * 2;
            weights[4] = weights[4].max(4) * 2;
            weights[8] = weights[8].max(5) * 2;
        }
        _ => {}
    }
    if profile == "C08" {
        setup.acc_twin = s.chance(1, 2);
    }
    let mut hp = HP { profile: profile.to_string(), setup, addrs: s.range(3, 6) as u16, steps, timer_mode, weights, wild_config: wild, warmup_flaps: 0, warmup_by_renewal: false, warmup_probe_rounds: 0, tight_headers: false };
    // injected fault of the no-panic check only: the instance's codec fails at random calls
    if wild && hp.setup.codec.is_wire() && !hp.setup.policy.var_ids && s.chance(1, 3) {
        hp.setup.codec = CodecKind::WireFlaky;
    }
    // C07 / C20: one run in five with packets so small that the longer headers do not fit
    if (profile == "C07" || profile == "C20") && seed % 5 == 0 {
        crate::id::set_policy(hp.setup.policy);
        let mut s3 = Stream::new(seed, "hist-tight");
        let own = hp.setup.id;
        let (mut lo, mut hi) = (usize::MAX, 0usize);
        for a in 2..=hp.addrs {
            for g in OWN_GEN - 1..OWN_GEN + 3 {
                let peer = SimId::new(a, g);
                let two = crate::codec::enc_header(hp.setup.codec, &Header { src: own, src_incarnation: 0, dst: peer, message: Message::Ack(0) }).len();
                let other = SimId::new(2 + (a - 1) % (hp.addrs - 1), OWN_GEN + (g % 3));
                let three = crate::codec::enc_header(hp.setup.codec, &Header { src: own, src_incarnation: u16::MAX, dst: peer, message: Message::PingReq { target: other, probe_number: 255 } }).len();
                lo = lo.min(two);
                hi = hi.max(three);
            }
        }
        hp.tight_headers = true;
        hp.setup.cfg.max_packet_size = NonZeroUsize::new(s3.range(lo as u64, hi as u64 + 6) as usize).unwrap();
    }
    // one run in ten (C13, C11) or forty starts with the timer token about to wrap around
    let odds = if profile == "C13" || profile == "C11" { 10 } else { 40 };
    if s.chance(1, odds) {
        hp.warmup_flaps = 246 + s.below(14) as u32;
        hp.warmup_by_renewal = seed % 2 == 1;
    }
    // ... or with the probe number about to wrap around
    let odds = if profile == "C12" { 10 } else { 40 };
    if hp.warmup_flaps == 0 && s.chance(1, odds) {
        hp.warmup_probe_rounds = 246 + s.below(14) as u32;
    }
    hp
}

struct Gen<'a> {
    s: Stream,
    hp: &'a HP,
    delivered_timers: Vec<Timer<SimId>>,
    item_version: u8,
}

impl<'a> Gen<'a> {
    fn any_id(&mut self, d: &Driver) -> SimId {
        let own = d.id();
        let addr = if self.s.chance(1, 8) { own.addr } else { self.s.range(1, self.hp.addrs as u64) as u16 };
        // prefer identities the instance knows, sometimes a neighbouring generation
        if let Some(m) = d.obs.slot(addr) {
            if self.s.chance(3, 5) {
                return *m.id();
            }
        }
        let g = OWN_GEN - 1 + self.s.below(4) as u32;
        SimId::new(addr, g)
    }
    fn other_id(&mut self, d: &Driver) -> SimId {
        for _ in 0..4 {
            let id = self.any_id(d);
            if id.addr != d.id().addr {
                return id;
            }
        }
        SimId::new(2, OWN_GEN)
    }
    fn inc_for(&mut self, d: &Driver, id: SimId) -> u16 {
        let known = d.obs.slot(id.addr).filter(|m| *m.id() == id).map(|m| m.incarnation());
        let own = d.obs.snap.incarnation;
        match self.s.below(10) {
            0 => 0,
            1 => 1,
            2 => u16::MAX,
            3 => u16::MAX - 1,
            4 => self.s.below(65536) as u16,
            5 | 6 => known.unwrap_or(0),
            7 => known.unwrap_or(0).saturating_add(1),
            8 => own,
            _ => own.saturating_sub(1),
        }
    }
    fn state(&mut self) -> State {
        *self.s.pick(&[State::Alive, State::Alive, State::Suspect, State::Down])
    }
    fn update(&mut self, d: &Driver) -> Member<SimId> {
        let id = if self.s.chance(1, 10) { d.id() } else { self.any_id(d) };
        let inc = self.inc_for(d, id);
        Member::new(id, inc, self.state())
    }
    fn updates(&mut self, d: &Driver) -> Vec<Member<SimId>> {
        // one batch in sixteen sweeps the table: every active member goes Down, then (often) something
        // about the instance itself or a newcomer - several connection-state changes inside ONE call
        if self.s.chance(1, 16) && !d.obs.active.is_empty() {
            let mut v: Vec<Member<SimId>> = d.obs.active.iter().map(|m| Member::new(*m.id(), m.incarnation(), State::Down)).collect();
            match self.s.below(5) {
                0 => v.push(Member::new(d.id(), d.obs.snap.incarnation, State::Down)),
                1 => v.push(Member::new(d.id(), u16::MAX, State::Suspect)),
                2 => v.push(self.update(d)),
                3 => v.insert(0, Member::new(d.id(), 0, State::Down)),
                _ => {}
            }
            return v;
        }
        // one batch in twenty-four holds several verdicts about the instance itself
        if self.s.chance(1, 24) {
            let own = d.id();
            let inc = d.obs.snap.incarnation;
            let mut v = vec![Member::new(own, *self.s.pick(&[0, inc, u16::MAX]), *self.s.pick(&[State::Down, State::Down, State::Suspect]))];
            if self.s.chance(1, 2) {
                v.push(self.update(d));
            }
            v.push(Member::new(own, *self.s.pick(&[0, inc, inc.saturating_add(1)]), *self.s.pick(&[State::Down, State::Suspect])));
            if self.s.chance(1, 3) {
                v.push(Member::new(SimId::new(own.addr, own.gen + 1), 0, State::Down));
            }
            return v;
        }
        let n = *self.s.pick(&[0usize, 0, 1, 1, 2, 3, 4, 6]);
        (0..n).map(|_| self.update(d)).collect()
    }
    fn item(&mut self) -> Vec<u8> {
        let key = self.s.below(6) as u8;
        let version = if self.s.chance(1, 4) { self.s.below(8) as u8 } else {
            self.item_version = self.item_version.wrapping_add(1);
            self.item_version
        };
        let len = *self.s.pick(&[0usize, 0, 1, 3, 8, 20, 40]);
        let mut v = vec![key, version];
        v.extend(self.s.bytes(len));
        if self.s.chance(1, 30) {
            v.truncate(1);
        }
        v
    }
    fn probe_no(&mut self, d: &Driver) -> u8 {
        let cur = d.obs.snap.probe_number;
        match self.s.below(6) {
            0 => cur.wrapping_sub(1),
            1 => cur.wrapping_add(1),
            2 => self.s.below(256) as u8,
            _ => cur,
        }
    }
    fn message(&mut self, d: &Driver, src: SimId) -> Message<SimId> {
        let own = d.id();
        let _ = src;
        match self.s.below(14) {
            0 | 1 => Message::Ping(self.s.below(256) as u8),
            2 | 3 => Message::Ack(self.probe_no(d)),
            4 => Message::PingReq { target: if self.s.chance(1, 10) { own } else { self.any_id(d) }, probe_number: self.s.below(256) as u8 },
            5 => Message::IndirectPing { origin: if self.s.chance(1, 10) { own } else { self.any_id(d) }, probe_number: self.s.below(256) as u8 },
            6 => Message::IndirectAck { target: if self.s.chance(1, 10) { own } else { self.any_id(d) }, probe_number: self.s.below(256) as u8 },
            7 => {
                let origin = d.obs.snap.probe_target.as_ref().map(|m| *m.id()).filter(|_| self.s.chance(3, 4)).unwrap_or_else(|| self.any_id(d));
                Message::ForwardedAck { origin, probe_number: self.probe_no(d) }
            }
            8 | 9 => Message::Gossip,
            10 => Message::Announce,
            11 => Message::Feed,
            12 => Message::Broadcast,
            _ => Message::TurnUndead,
        }
    }
    fn valid_datagram(&mut self, d: &Driver) -> Vec<u8> {
        let own = d.id();
        // bias the source towards whoever the instance is waiting for
        let mut src = if self.s.chance(1, 12) { self.any_id(d) } else { self.other_id(d) };
        if self.s.chance(1, 3) {
            if let Some(t) = &d.obs.snap.probe_target {
                src = *t.id();
            }
        }
        if self.s.chance(1, 6) {
            if let Some(h) = d.obs.snap.probe_indirect_pending.first() {
                src = *h;
            }
        }
        let src_inc = self.inc_for(d, src);
        let dst = match self.s.below(20) {
            0 => SimId::new(own.addr, own.gen.wrapping_sub(1)),
            1 => self.any_id(d),
            _ => own,
        };
        let mut msg = self.message(d, src);
        if d.obs.snap.probe_target.as_ref().is_some_and(|t| *t.id() == src) && self.s.chance(1, 2) {
            msg = Message::Ack(self.probe_no(d));
        }
        let h = Header { src, src_incarnation: src_inc, dst, message: msg.clone() };
        let (members, items): (Option<Vec<Member<SimId>>>, Vec<Vec<u8>>) = match msg {
            Message::Announce | Message::TurnUndead => (None, vec![]),
            Message::Broadcast => (None, (0..self.s.below(4)).map(|_| self.item()).filter(|i| !i.is_empty()).collect()),
            _ => {
                let ups = self.updates(d);
                let n_items = *self.s.pick(&[0u64, 0, 0, 1, 2, 3]);
                let items: Vec<Vec<u8>> = (0..n_items).map(|_| self.item()).collect();
                if ups.is_empty() && items.is_empty() && self.s.chance(1, 2) {
                    (None, items)
                } else {
                    (Some(ups), items)
                }
            }
        };
        build_datagram(d.codec(), &h, members.as_deref(), &items)
    }
    fn mutate(&mut self, mut v: Vec<u8>) -> Vec<u8> {
        if v.is_empty() {
            return v;
        }
        match self.s.below(6) {
            0 => {
                let i = self.s.below(v.len() as u64) as usize;
                v[i] ^= 1 << self.s.below(8);
            }
            1 => {
                let n = self.s.below(v.len() as u64) as usize;
                v.truncate(n);
            }
            2 => {
                let extra = self.s.range(1, 6) as usize;
                let junk = self.s.bytes(extra);
                v.extend(junk);
            }
            3 => {
                // tamper with a 16-bit field somewhere (member count / item length)
                if v.len() >= 2 {
                    let i = self.s.below(v.len() as u64 - 1) as usize;
                    let x = *self.s.pick(&[0u16, 1, 2, 255, 256, u16::MAX]);
                    v[i] = (x >> 8) as u8;
                    v[i + 1] = x as u8;
                }
            }
            4 => {
                let i = self.s.below(v.len() as u64) as usize;
                v[i] = self.s.below(256) as u8;
            }
            _ => {
                v.push(0);
            }
        }
        v
    }
    fn crafted_timer(&mut self, d: &Driver) -> Timer<SimId> {
        let cur = d.obs.snap.timer_token;
        let token = match self.s.below(5) {
            0 => cur.wrapping_sub(1),
            1 => self.s.below(256) as u8,
            2 => cur.wrapping_add(1),
            _ => cur,
        };
        match self.s.below(7) {
            0 => Timer::ProbeRandomMember(token),
            1 => Timer::SendIndirectProbe { probed_id: d.obs.snap.probe_target.as_ref().map(|m| *m.id()).filter(|_| self.s.chance(1, 2)).unwrap_or_else(|| self.any_id(d)), token },
            2 => {
                let id = self.any_id(d);
                Timer::ChangeSuspectToDown { member_id: id, incarnation: self.inc_for(d, id), token }
            }
            3 => Timer::PeriodicAnnounce(token),
            4 => Timer::PeriodicAnnounceDown(token),
            5 => Timer::PeriodicGossip(token),
            _ => Timer::RemoveDown(self.any_id(d)),
        }
    }
    fn set_config(&mut self, d: &Driver) -> Config {
        let mut c = d.monitors.cfg.clone();
        let min_mps = min_packet(&self.hp.setup);
        match self.s.below(12) {
            0 => c.num_indirect_probes = NonZeroUsize::new(self.s.range(1, if self.hp.wild_config { 64 } else { 4 }) as usize).unwrap(),
            1 => c.max_transmissions = NonZeroU8::new(*self.s.pick(&[1u8, 2, 3, 10, 255])).unwrap(),
            2 => c.suspect_to_down_after = Duration::from_millis(self.s.range(0, 5000)),
            3 => c.remove_down_after = Duration::from_millis(self.s.range(0, 5000)),
            4 => {
                let fresh = gen_config(&mut self.s, min_mps, self.hp.wild_config);
                if self.hp.tight_headers {
                    // stay around the header sizes
                    let cur = c.max_packet_size.get();
                    c.max_packet_size = NonZeroUsize::new((cur + self.s.below(9) as usize).saturating_sub(4).max(1)).unwrap();
                } else {
                    c.max_packet_size = fresh.max_packet_size;
                }
            }
            5 => c.notify_down_members = !c.notify_down_members,
            6 => c.periodic_announce = None,
            7 => c.periodic_gossip = None,
            8 => c.periodic_announce_to_down_members = None,
            9 => {
                // re-tune a periodic task that is already enabled (legal), or try to enable one (illegal)
                let p = Some(PeriodicParams { frequency: Duration::from_millis(self.s.range(1, 3000)), num_members: NonZeroUsize::new(self.s.range(1, 3) as usize).unwrap() });
                match self.s.below(3) {
                    0 => c.periodic_announce = p,
                    1 => c.periodic_gossip = p,
                    _ => c.periodic_announce_to_down_members = p,
                }
            }
            10 => c.probe_period += Duration::from_millis(1),
            _ => c.probe_rtt += Duration::from_millis(1),
        }
        c
    }

    fn next(&mut self, d: &Driver) -> Step {
        let exact = self.hp.timer_mode != TimerMode::Adversarial;
        let mut w = self.hp.weights;
        if d.pending.is_empty() {
            w[3] = 0;
        }
        if self.delivered_timers.is_empty() {
            w[5] = 0;
        }
        match self.s.weighted(&w) {
            0 => Step::In(Input::Data(self.valid_datagram(d))),
            1 => {
                let v = self.valid_datagram(d);
                Step::In(Input::Data(self.mutate(v)))
            }
            2 => {
                let max = d.monitors.cfg.max_packet_size.get() as u64;
                let n = match self.s.below(4) {
                    0 => self.s.range(0, 8),
                    1 => self.s.range(max.saturating_sub(2), max + 3),
                    2 => self.s.range(max + 1, 2 * max + 1),
                    _ => self.s.range(0, max.min(200)),
                };
                Step::In(Input::Data(self.s.bytes(n.min(150_000) as usize)))
            }
            3 => {
                if exact {
                    if self.hp.timer_mode == TimerMode::ExactDeadline {
                        Step::NextTimer
                    } else {
                        Step::AnyTimer(self.s.next())
                    }
                } else if self.s.chance(1, 2) {
                    Step::NextTimer
                } else {
                    Step::AnyTimer(self.s.next())
                }
            }
            4 => Step::In(Input::Timer(self.crafted_timer(d))),
            5 => {
                let t = self.s.pick(&self.delivered_timers).clone();
                Step::In(Input::Timer(t))
            }
            6 => match self.s.below(6) {
                0 => Step::In(Input::Announce(self.any_id(d))),
                1 => Step::In(Input::Gossip),
                2 => Step::In(Input::Leave),
                _ => {
                    let ups = self.updates(d);
                    Step::In(Input::ApplyMany(ups, self.s.chance(3, 4)))
                }
            },
            7 => match self.s.below(5) {
                0 => Step::In(Input::Broadcast),
                1 => {
                    let max = d.monitors.cfg.max_packet_size.get();
                    let n = match self.s.below(3) {
                        0 => 0,
                        1 => max + 1,
                        _ => max,
                    };
                    let mut v = vec![1u8, 200];
                    v.resize(n.min(80_000), 7);
                    Step::In(Input::AddBroadcast(v))
                }
                _ => Step::In(Input::AddBroadcast(self.item())),
            },
            _ => match self.s.below(8) {
                0 | 1 => {
                    let own = d.id();
                    let new = match self.s.below(6) {
                        // (an equal value; every other time one that differs in what equality does not cover)
                        0 => own.with_shade((d.history.len() % 2) as u8),
                        1 => SimId::new(own.addr, own.gen.saturating_sub(1)),
                        2 => SimId::new(own.addr, own.gen.saturating_sub(2)),
                        // the instance moves to a fresh address nobody else uses (address migration)
                        3 => {
                            let a = 100 + self.s.below(50) as u16;
                            if d.obs.slot(a).is_some() { SimId::new(own.addr, own.gen + 1) } else { SimId::new(a, own.gen) }
                        }
                        _ => SimId::new(own.addr, own.gen + 1 + self.s.below(2) as u32),
                    };
                    Step::In(Input::ChangeIdentity(new))
                }
                2 | 3 => Step::In(Input::ReuseDown),
                _ => Step::In(Input::SetConfig(self.set_config(d))),
            },
        }
    }
}

pub struct HistRun {
    pub out: RunOut,
    pub steps: Vec<Step>,
    /// the inputs actually handed to the instance, timers resolved
    pub history: Vec<Input>,
}

pub fn run_hist_history(hp: &HP, seed: u64) -> Vec<Input> {
    run_hist(hp, seed, None).history
}

/// Resolve a step to an input (None = nothing to do in the current state).
fn resolve(step: &Step, d: &Driver, now: &mut u64, issue_time: &std::collections::BTreeMap<u64, u64>) -> Option<Input> {
    match step {
        Step::In(i) => Some(i.clone()),
        Step::NextTimer => {
            let best = d.pending.iter().min_by_key(|(_, after, seq)| (issue_time.get(seq).copied().unwrap_or(0).saturating_add(after.as_nanos().min(u64::MAX as u128 / 2) as u64), *seq))?;
            let deadline = issue_time.get(&best.2).copied().unwrap_or(0).saturating_add(best.1.as_nanos().min(u64::MAX as u128 / 2) as u64);
            if deadline > *now {
                *now = deadline;
            }
            Some(Input::Timer(best.0.clone()))
        }
        Step::AnyTimer(k) => {
            if d.pending.is_empty() {
                return None;
            }
            let (t, _, _) = &d.pending[(*k % d.pending.len() as u64) as usize];
            Some(Input::Timer(t.clone()))
        }
    }
}

/// Run a history. `steps == None`: generate adaptively from the seed and record what was done.
pub fn run_hist(hp: &HP, seed: u64, steps: Option<&[Step]>) -> HistRun {
    let mut d = Driver::new(hp.setup.clone());
    d.monitors.exact_timers = hp.timer_mode != TimerMode::Adversarial;
    let mut g = Gen { s: Stream::new(seed, "hist-steps"), hp, delivered_timers: Vec::new(), item_version: 8 };
    let mut done: Vec<Step> = Vec::new();
    let mut now: u64 = 0;
    let mut issue_time: std::collections::BTreeMap<u64, u64> = Default::default();
    let mut seen_seq = 0u64;
    let mut extra = Vec::new();
    // warm-up state: flaps left, phase (0 join, 1 down, 2 drain the timers)
    let mut warm_left = if steps.is_none() { hp.warmup_flaps } else { 0 };
    let mut warm_phase = 0u8;
    let warm_id = SimId::new(2, OWN_GEN);
    let mut probe_warm_left = if steps.is_none() { hp.warmup_probe_rounds } else { 0 };
    let mut probe_warm_joined = false;
    // the number of a Ping just sent to the warm-up member, to be acknowledged next
    let mut owed_ack: Option<u8> = None;
    let mut warm_budget: u32 = 40 * (hp.warmup_flaps + hp.warmup_probe_rounds) + 1;
    let mut generated = 0usize;
    let mut i = 0usize;
    loop {
        if d.dead() {
            break;
        }
        let step = match steps {
            Some(s) => {
                if i >= s.len() {
                    break;
                }
                i += 1;
                s[i - 1].clone()
            }
            None if probe_warm_left > 0 => {
                // (bounded: an instance that cannot ping - packets smaller than a header, say - would otherwise
                // keep its periodic timers going for ever)
                warm_budget = warm_budget.saturating_sub(1);
                if warm_budget == 0 {
                    probe_warm_left = 0;
                    continue;
                }
                if !probe_warm_joined {
                    probe_warm_joined = true;
                    Step::In(Input::ApplyMany(vec![Member::new(warm_id, 0, State::Alive)], false))
                } else if let Some(n) = owed_ack.take() {
                    probe_warm_left -= 1;
                    Step::In(Input::Data(d.dgram(warm_id, 0, Message::Ack(n), None, &[])))
                } else if d.pending.is_empty() {
                    probe_warm_left = 0;
                    continue;
                } else {
                    Step::NextTimer
                }
            }
            None if warm_left > 0 && warm_budget == 0 => {
                warm_left = 0;
                continue;
            }
            None if warm_left > 0 && hp.warmup_by_renewal => {
                warm_left -= 1;
                let own = d.id();
                Step::In(Input::ChangeIdentity(SimId::new(own.addr, own.gen + 1)))
            }
            None if warm_left > 0 => match { warm_budget -= 1; warm_phase } {
                0 => {
                    warm_phase = 1;
                    Step::In(Input::ApplyMany(vec![Member::new(warm_id, 0, State::Alive)], false))
                }
                1 => {
                    warm_phase = 2;
                    Step::In(Input::ApplyMany(vec![Member::new(warm_id, 0, State::Down)], false))
                }
                _ => {
                    if d.pending.is_empty() {
                        warm_phase = 0;
                        warm_left -= 1;
                        continue;
                    }
                    Step::NextTimer
                }
            },
            None => {
                if generated >= hp.steps {
                    break;
                }
                generated += 1;
                g.next(&d)
            }
        };
        let Some(input) = resolve(&step, &d, &mut now, &issue_time) else {
            done.push(step);
            continue;
        };
        // in exact modes the premise is "each scheduled timer is delivered exactly once":
        // a timer that the instance did not schedule (possible in a minimised replay) is skipped
        if d.monitors.exact_timers {
            if let Input::Timer(t) = &input {
                if !d.pending.iter().any(|(p, _, _)| p == t) {
                    done.push(step);
                    continue;
                }
            }
        }
        let is_timer = matches!(input, Input::Timer(_));
        if let Input::Timer(t) = &input {
            if g.delivered_timers.len() < 64 {
                g.delivered_timers.push(t.clone());
            }
        }
        let rec = d.step(input);
        done.push(step);
        if probe_warm_left > 0 {
            owed_ack = rec.sends().find_map(|(to, data)| match crate::codec::parse_datagram(d.codec(), data).ok()?.header.message {
                Message::Ping(n) if *to == warm_id => Some(n),
                _ => None,
            });
        }
        for (_, _, seq) in d.pending.iter() {
            if *seq > seen_seq {
                issue_time.insert(*seq, now);
            }
        }
        seen_seq = d.issue_seq;
        // C13: errors from handle_timer
        if is_timer && d.monitors.exact_timers {
            let at = (done.len() - 1) as u64;
            match rec.result {
                Res::Ok | Res::Panic => {}
                Res::Err(ErrKind::IncompleteProbeCycle) if hp.timer_mode == TimerMode::ExactAnyOrder => {
                    d.stats.inc("c13_incomplete_probe_cycle_out_of_order");
                    if !rec.scheds().any(|(t, _)| matches!(t, Timer::ProbeRandomMember(_))) {
                        extra.push(Violation { property: "C13", tag: "C13/probing-did-not-resume".into(), detail: "IncompleteProbeCycle without a new probe timer".into(), at });
                    }
                }
                other => {
                    extra.push(Violation { property: "C13", tag: "C13/handle-timer-error".into(), detail: format!("{} returned {:?} in mode {:?}", rec.input.kind(), other, hp.timer_mode), at });
                }
            }
        }
    }
    d.violations.extend(extra);
    let mut out = RunOut::default();
    out.signature = d.sig.0;
    out.log_hash = d.log.0;
    out.stats = d.stats.clone();
    out.stats.add("events", d.history.len() as u64);
    out.violations = d.violations;
    if hp.wild_config {
        // configurations outside every other property's premise (packets smaller than a header, absurd
        // counts): only the no-panic oracle is meaningful, the other monitors' verdicts are not recorded
        out.violations.retain(|v| v.property == "C06");
    }
    if hp.tight_headers {
        out.violations.retain(|v| matches!(v.property, "C07" | "C06"));
    }
    if hp.setup.policy.renew == RenewMode::Tie {
        // identities without a total conflict order are outside the premise of the table properties (C01, C09):
        // under this policy only the reaction to one's own death (C08, C10) and the no-panic oracle are recorded
        out.violations.retain(|v| matches!(v.property, "C10" | "C08" | "C06"));
    }
    out.sim_ns = now.min(1u64 << 50);
    HistRun { out, steps: done, history: d.history }
}

/// Has this run exercised what `focus` is about?
pub fn nontrivial_for(focus: &str, out: &RunOut) -> bool {
    let g = |k: &str| out.stats.sums.get(k).copied().unwrap_or(0);
    match focus {
        "C01" => g("calls") > 5,
        "C06" => g("calls") > 0,
        "C07" => g("datagrams_checked") > 0,
        "C08" => g("calls") > 5 && g("sends") > 0,
        "C09" => g("calls") > 5,
        "C10" => g("incarnation_bumps") + g("self_down_triggers") + g("self_suspicions_processed") > 0,
        "C11" => g("c11_timeouts_taking_effect") + g("c11_timeouts_without_effect_expected") > 0,
        "C12" => g("c12_replies_owed") > 0,
        "C13" => g("c13_stale_timer_delivered") + g("c13_ledger_checks_active") > 0,
        "C14" => g("c14_rounds_monitored") > 0,
        "C15" => g("c15_nonempty_sections") > 0,
        "C16" => g("c16_items_sent") + g("c16_items_received") > 0,
        "C19" => g("datagrams_checked") > 0,
        "C17" => g("c17_rejections_monitored") > 0,
        "C20" => g("calls") > 5,
        _ => true,
    }
}

pub struct Hist {
    pub name: &'static str,
    pub focus: &'static str,
}

impl Scenario for Hist {
    fn name(&self) -> &'static str {
        self.name
    }
    fn gen(&self, seed: u64, tier: Tier, _index: u64) -> Case {
        let hp = gen_hp(seed, self.focus, tier);
        Case { property: self.focus.into(), scenario: self.name.into(), seed, params: serde_json::to_value(hp).unwrap(), steps: vec![], explicit: false }
    }
    fn run(&self, case: &Case) -> RunOut {
        let hp: HP = serde_json::from_value(case.params.clone()).expect("hist params");
        let steps: Option<Vec<Step>> = if !case.explicit {
            None
        } else {
            Some(case.steps.iter().map(|v| serde_json::from_value(v.clone()).expect("hist step")).collect())
        };
        let r = run_hist(&hp, case.seed, steps.as_deref());
        let mut out = r.out;
        if self.focus == "C20" {
            // bundled codecs inside a running instance: "fail cleanly ... Foca's datagrams stay well-formed", no panic
            for v in out.violations.iter_mut() {
                if v.property == "C07" || (v.property == "C06" && v.tag.contains("panic")) {
                    v.tag = format!("C20/with-bundled-codec:{}", v.tag);
                    v.property = "C20";
                }
            }
        }
        out.nontrivial = nontrivial_for(self.focus, &out);
        if steps.is_none() && !out.violations.is_empty() {
            let mut c = case.clone();
            c.steps = r.steps.iter().map(|s| serde_json::to_value(s).unwrap()).collect();
            c.explicit = true;
            out.concrete = Some(c);
        }
        out
    }
    fn concretise(&self, case: &Case) -> Case {
        if case.explicit {
            return case.clone();
        }
        let hp: HP = serde_json::from_value(case.params.clone()).expect("hist params");
        let r = run_hist(&hp, case.seed, None);
        let mut c = case.clone();
        c.steps = r.steps.iter().map(|s| serde_json::to_value(s).unwrap()).collect();
        c.explicit = true;
        c
    }
}
