//! Exhaustive short histories: every sequence of up to k operations over a fixed alphabet of
//! 40 operations on one real instance, with all monitors attached. Complements the seeded
//! histories (most reported protocol bugs need three or fewer operations).

use crate::codec::CodecKind;
use crate::frame::{Case, RunOut, Scenario, Tier};
use crate::handler::{HandlerCfg, Rel};
use crate::id::{Policy, RenewMode, SimId};
use crate::node::{Input, Setup};
use crate::script::{is_indirect, is_probe, Driver};
use foca::{Config, Member, Message, PeriodicParams, State, Timer};
use std::num::{NonZeroU8, NonZeroUsize};
use std::time::Duration;

pub const ALPHABET: usize = 40;

const OWN: SimId = SimId::new(1, 10);
const B: SimId = SimId::new(2, 10);
const B2: SimId = SimId::new(2, 11);
const C: SimId = SimId::new(3, 10);

/// Resolve operation `op` against the current state of the driver. None = not applicable now.
fn op_input(d: &Driver, op: usize) -> Option<Input> {
    let own = d.id();
    let inc_of = |id: SimId| d.obs.slot(id.addr).filter(|m| *m.id() == id).map(|m| m.incarnation()).unwrap_or(0);
    let dg = |src: SimId, inc: u16, m: Message<SimId>, ups: &[Member<SimId>], items: &[Vec<u8>]| {
        Input::Data(d.dgram(src, inc, m, if ups.is_empty() { None } else { Some(ups) }, items))
    };
    let pn = d.obs.snap.probe_number;
    let own_inc = d.obs.snap.incarnation;
    Some(match op {
        0 => dg(B, inc_of(B), Message::Ping(1), &[], &[]),
        1 => dg(B, inc_of(B), Message::Ack(pn), &[], &[]),
        2 => dg(C, inc_of(C), Message::Announce, &[], &[]),
        3 => dg(B, inc_of(B), Message::Gossip, &[Member::new(C, 0, State::Alive)], &[]),
        4 => dg(B, inc_of(B), Message::Gossip, &[Member::new(C, 0, State::Suspect)], &[]),
        5 => dg(B, inc_of(B), Message::Gossip, &[Member::new(C, 0, State::Down)], &[]),
        6 => dg(B, inc_of(B), Message::Gossip, &[Member::new(own, own_inc, State::Suspect)], &[]),
        7 => dg(B, inc_of(B), Message::Gossip, &[Member::new(own, 0, State::Down)], &[]),
        8 => dg(B, inc_of(B), Message::TurnUndead, &[], &[]),
        9 => dg(B2, 0, Message::Gossip, &[], &[]),
        10 => dg(C, inc_of(C), Message::Gossip, &[Member::new(B2, 0, State::Down)], &[]),
        11 => dg(C, inc_of(C), Message::Gossip, &[Member::new(B, inc_of(B).saturating_add(1), State::Alive)], &[]),
        12 => dg(B, inc_of(B).saturating_add(1), Message::Gossip, &[], &[]),
        13 => dg(C, inc_of(C), Message::PingReq { target: B, probe_number: 9 }, &[], &[]),
        14 => dg(B, inc_of(B), Message::IndirectPing { origin: C, probe_number: 9 }, &[], &[]),
        15 => dg(B, inc_of(B), Message::IndirectAck { target: C, probe_number: 9 }, &[], &[]),
        16 => dg(C, inc_of(C), Message::ForwardedAck { origin: B, probe_number: pn }, &[], &[]),
        17 => dg(C, inc_of(C), Message::Broadcast, &[], &[vec![1, 9, 7, 7]]),
        18 => dg(B, inc_of(B), Message::Gossip, &[Member::new(SimId::new(own.addr, own.gen.saturating_sub(1)), 0, State::Alive)], &[vec![2, 1]]),
        19 => dg(B, inc_of(B), Message::Gossip, &[Member::new(own, u16::MAX, State::Suspect)], &[]),
        20 => Input::Timer(d.find_timer(is_probe)?),
        21 => Input::Timer(d.find_timer(is_indirect)?),
        22 => Input::Timer(d.find_timer(|t| matches!(t, Timer::ChangeSuspectToDown { .. }))?),
        23 => Input::Timer(Timer::RemoveDown(B)),
        24 => Input::Timer(Timer::RemoveDown(C)),
        25 => Input::Timer(d.find_timer(|t| matches!(t, Timer::PeriodicAnnounceDown(_)))?),
        26 => Input::Timer(d.find_timer(|t| matches!(t, Timer::PeriodicGossip(_)))?),
        27 => Input::Timer(d.pending.iter().find(|(t, _, _)| is_probe(t)).map(|(t, _, _)| t.clone())?), // the OLDEST probe timer (possibly stale)
        28 => Input::Leave,
        29 => Input::ReuseDown,
        30 => Input::ChangeIdentity(SimId::new(own.addr, own.gen + 1)),
        31 => Input::Gossip,
        32 => Input::Broadcast,
        33 => Input::AddBroadcast(vec![1, 5, 0xaa]),
        34 => Input::AddBroadcast(vec![1, 6, 0xbb, 0xcc]),
        35 => Input::Announce(B),
        36 => Input::ApplyMany(vec![Member::new(B, 0, State::Alive), Member::new(C, 0, State::Alive)], true),
        37 => Input::ApplyMany(vec![Member::new(B, inc_of(B), State::Down)], false),
        38 => {
            let mut c = d.monitors.cfg.clone();
            c.max_transmissions = NonZeroU8::new(1).unwrap();
            c.periodic_gossip = None;
            Input::SetConfig(c)
        }
        _ => dg(SimId::new(own.addr, own.gen + 2), 0, Message::Gossip, &[], &[]),
    })
}

pub fn base_setup(variant: u64) -> Setup {
    let mut cfg = Config::simple();
    cfg.num_indirect_probes = NonZeroUsize::new(2).unwrap();
    cfg.max_transmissions = NonZeroU8::new(2).unwrap();
    cfg.notify_down_members = variant & 1 == 1;
    cfg.periodic_announce_to_down_members = Some(PeriodicParams { frequency: Duration::from_secs(7), num_members: NonZeroUsize::new(2).unwrap() });
    cfg.periodic_gossip = Some(PeriodicParams { frequency: Duration::from_secs(3), num_members: NonZeroUsize::new(1).unwrap() });
    cfg.max_packet_size = NonZeroUsize::new(if variant & 4 == 4 { 40 } else { 1400 }).unwrap();
    Setup {
        id: OWN,
        cfg,
        codec: CodecKind::Wire,
        policy: Policy { renew: if variant & 2 == 2 { RenewMode::Next } else { RenewMode::Never }, mask: u64::MAX, var_ids: false },
        hcfg: HandlerCfg { rel: Rel::SameKey, allow_mask: u64::MAX, err_on_short: true },
        rng_seed: 7 + variant,
        acc_twin: true,
    }
}

pub struct Exhaustive {
    pub focus: &'static str,
}

fn depth(tier: Tier) -> u32 {
    match tier {
        Tier::Quick => 3,
        Tier::Thorough => 4,
    }
}

impl Scenario for Exhaustive {
    fn name(&self) -> &'static str {
        "exhaustive-short-histories"
    }
    fn gen(&self, seed: u64, tier: Tier, i: u64) -> Case {
        // index -> (variant in 0..8, sequence of `depth` operations); every sequence starts from an
        // instance that already knows B and C (so that three more operations reach interesting states)
        let k = depth(tier);
        let per_variant = (ALPHABET as u64).pow(k);
        let variant = i / per_variant;
        let mut x = i % per_variant;
        let mut ops = Vec::new();
        for _ in 0..k {
            ops.push(x % ALPHABET as u64);
            x /= ALPHABET as u64;
        }
        Case { property: self.focus.into(), scenario: self.name().into(), seed, params: serde_json::json!({"variant": variant, "ops": ops}), steps: vec![], explicit: false }
    }
    fn run(&self, case: &Case) -> RunOut {
        let variant = case.params["variant"].as_u64().unwrap_or(0);
        let ops: Vec<usize> = case.params["ops"].as_array().map(|a| a.iter().filter_map(|v| v.as_u64()).map(|v| v as usize).collect()).unwrap_or_default();
        let mut d = Driver::new(base_setup(variant));
        d.step(Input::ApplyMany(vec![Member::new(B, 0, State::Alive), Member::new(C, 0, State::Alive)], true));
        // one probe round has already started (a probe is in flight in most real states)
        d.fire(is_probe);
        for op in &ops {
            if d.dead() {
                break;
            }
            if let Some(input) = op_input(&d, *op) {
                d.step(input);
            }
        }
        let mut out = RunOut::default();
        out.nontrivial = true;
        out.signature = d.log.0;
        out.log_hash = d.log.0;
        out.stats.merge(&d.stats);
        out.stats.add("events", d.history.len() as u64);
        out.violations = d.violations;
        out
    }
    fn steps_minimisable(&self) -> bool {
        false
    }
    fn exhaustive_len(&self, tier: Tier) -> Option<u64> {
        Some(8 * (ALPHABET as u64).pow(depth(tier)))
    }
}
