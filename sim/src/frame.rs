//! Check framework: cases, scenarios, the parallel seeded runner, minimisation, replay files,
//! known findings and evidence.

use crate::prng::{mix2, mix3, name_hash};
use serde_json::{json, Value};
use std::collections::{BTreeMap, BTreeSet, HashSet};
use std::sync::atomic::{AtomicU64, Ordering};
use std::sync::Mutex;
use std::time::Instant;

#[derive(Clone, Copy, Debug, PartialEq, Eq)]
pub enum Tier {
    Quick,
    Thorough,
}
impl Tier {
    pub fn name(&self) -> &'static str {
        match self {
            Tier::Quick => "quick",
            Tier::Thorough => "thorough",
        }
    }
}

/// One fully replayable execution: scenario + seed + parameters + explicit steps.
#[derive(Clone, Debug, serde::Serialize, serde::Deserialize)]
pub struct Case {
    pub property: String,
    pub scenario: String,
    pub seed: u64,
    pub params: Value,
    /// plan operations or concrete inputs; empty for generative cases (the run concretises them)
    #[serde(default)]
    pub steps: Vec<Value>,
    /// true: `steps` is the complete history (even when empty); false: generate from the seed
    #[serde(default)]
    pub explicit: bool,
}

#[derive(Clone, Debug)]
pub struct Violation {
    pub property: &'static str,
    /// stable oracle tag, e.g. "C11/effects-on-cancelled-timeout"
    pub tag: String,
    pub detail: String,
    /// step index or simulated time at which the oracle fired
    pub at: u64,
}

#[derive(Clone, Debug, Default)]
pub struct Stats {
    pub sums: BTreeMap<String, u64>,
    pub maxs: BTreeMap<String, u64>,
}
impl Stats {
    pub fn add(&mut self, k: &str, n: u64) {
        if n > 0 {
            *self.sums.entry(k.to_string()).or_insert(0) += n;
        }
    }
    pub fn inc(&mut self, k: &str) {
        self.add(k, 1);
    }
    pub fn max(&mut self, k: &str, v: u64) {
        let e = self.maxs.entry(k.to_string()).or_insert(0);
        if v > *e {
            *e = v;
        }
    }
    pub fn merge(&mut self, o: &Stats) {
        for (k, v) in &o.sums {
            *self.sums.entry(k.clone()).or_insert(0) += v;
        }
        for (k, v) in &o.maxs {
            let e = self.maxs.entry(k.clone()).or_insert(0);
            if *v > *e {
                *e = *v;
            }
        }
    }
}

#[derive(Clone, Debug, Default)]
pub struct RunOut {
    pub violations: Vec<Violation>,
    pub log_hash: u64,
    /// behaviour signature of the run (abstracted event log)
    pub signature: u64,
    /// did the property's antecedent actually occur in this run
    pub nontrivial: bool,
    /// the concretised case (explicit steps) when the input case was generative
    pub concrete: Option<Case>,
    pub stats: Stats,
    /// additional distinct signatures contributed by this run (e.g. one per enumerated sub-case)
    pub extra_signatures: Vec<u64>,
    /// evaluations contributed (defaults to 1 when 0)
    pub evaluations: u64,
    /// simulated nanoseconds covered
    pub sim_ns: u64,
}

pub trait Scenario: Sync {
    fn name(&self) -> &'static str;
    /// Build the i-th case of a batch from the batch seed. Must be a pure function.
    fn gen(&self, seed: u64, tier: Tier, index: u64) -> Case;
    /// Execute. Must be a pure function of the case (and the code).
    fn run(&self, case: &Case) -> RunOut;
    /// Smaller variants of a failing case to try (parameter shrinking).
    fn shrink(&self, _case: &Case) -> Vec<Case> {
        Vec::new()
    }
    /// Turn a generative case into one with explicit steps (used for evidence samples)
    fn concretise(&self, case: &Case) -> Case {
        self.run(case).concrete.unwrap_or_else(|| case.clone())
    }
    /// Whether ddmin over `steps` makes sense for this scenario
    fn steps_minimisable(&self) -> bool {
        true
    }
    /// Is this an exhaustive enumeration (index-addressed), and if so how many cases
    fn exhaustive_len(&self, _tier: Tier) -> Option<u64> {
        None
    }
}

pub struct Batch {
    pub scenario: &'static dyn Scenario,
    pub quick: u64,
    pub thorough: u64,
}

pub struct CheckDef {
    pub property: &'static str,
    pub level: &'static str,
    pub rule: &'static str,
    pub assumptions: Vec<String>,
    pub real_components: &'static str,
    pub stub_components: &'static str,
    pub batches: Vec<Batch>,
    /// findings: (finding id, tag prefix that identifies it)
    pub extra: Option<fn(Tier, u64) -> Value>,
}

#[derive(Clone, Debug)]
pub struct KnownFinding {
    pub property: String,
    pub id: String,
    pub signature: String,
    pub text: String,
}

pub fn load_known_findings(path: &str) -> Vec<KnownFinding> {
    let mut v = Vec::new();
    let Ok(s) = std::fs::read_to_string(path) else {
        return v;
    };
    for line in s.lines() {
        let line = line.trim();
        if !line.starts_with("finding:") {
            continue;
        }
        let mut kf = KnownFinding { property: String::new(), id: String::new(), signature: String::new(), text: line.to_string() };
        for tok in line.split_whitespace() {
            if let Some(x) = tok.strip_prefix("property=") {
                kf.property = x.to_string();
            } else if let Some(x) = tok.strip_prefix("id=") {
                kf.id = x.to_string();
            } else if let Some(x) = tok.strip_prefix("signature=") {
                kf.signature = x.to_string();
            }
        }
        if !kf.property.is_empty() && !kf.signature.is_empty() {
            v.push(kf);
        }
    }
    v
}

pub fn verif_root() -> String {
    std::env::var("VERIF_ROOT").unwrap_or_else(|_| "/verif".to_string())
}

pub fn run_seed(verif_seed: u64, property: &str, scenario: &str, index: u64) -> u64 {
    mix3(mix2(verif_seed, name_hash(property)), name_hash(scenario), index)
}

struct Found {
    index: u64,
    case: Case,
    v: Violation,
}

#[derive(Default)]
struct Acc {
    evaluations: u64,
    runs: u64,
    nontrivial_sigs: HashSet<u64>,
    all_sigs: HashSet<u64>,
    stats: Stats,
    sim_ns: u64,
    found: Vec<Found>,
    cross: BTreeMap<String, u64>,
    samples: Vec<(u64, Case, u64)>, // (index, case, events)
    tag_counts: BTreeMap<String, u64>,
}

fn worker_count() -> usize {
    std::env::var("VERIF_WORKERS").ok().and_then(|s| s.parse().ok()).unwrap_or_else(|| {
        std::thread::available_parallelism().map(|n| n.get()).unwrap_or(4)
    })
}

/// Run one batch in parallel. Results are merged with commutative operations only, so the
/// outcome does not depend on the number of workers or on thread timing.
fn run_batch(property: &'static str, report_prop: &'static str, sc: &'static dyn Scenario, n: u64, tier: Tier, verif_seed: u64) -> Acc {
    let next = AtomicU64::new(0);
    let total = Mutex::new(Acc::default());
    let workers = worker_count().max(1);
    let deadline = std::env::var("VERIF_MAX_WALL_S").ok().and_then(|s| s.parse::<u64>().ok());
    let t0 = Instant::now();
    std::thread::scope(|scope| {
        for _ in 0..workers {
            scope.spawn(|| {
                crate::node::install_quiet_panic_hook();
                let mut acc = Acc::default();
                loop {
                    let i = next.fetch_add(1, Ordering::Relaxed);
                    if i >= n {
                        break;
                    }
                    if let Some(d) = deadline {
                        if t0.elapsed().as_secs() > d {
                            break;
                        }
                    }
                    let seed = run_seed(verif_seed, property, sc.name(), i);
                    let case = sc.gen(seed, tier, i);
                    let out = match std::panic::catch_unwind(std::panic::AssertUnwindSafe(|| sc.run(&case))) {
                        Ok(o) => o,
                        Err(p) => {
                            // a panic outside the instance under test is a harness error, never a verdict
                            let msg = p.downcast_ref::<String>().cloned().or_else(|| p.downcast_ref::<&str>().map(|s| s.to_string())).unwrap_or_default();
                            acc.stats.inc("HARNESS_PANIC");
                            eprintln!("harness error: scenario {} run {i} (seed {seed}) panicked: {msg}", sc.name());
                            continue;
                        }
                    };
                    acc.runs += 1;
                    acc.evaluations += out.evaluations.max(1);
                    acc.sim_ns = acc.sim_ns.saturating_add(out.sim_ns);
                    acc.all_sigs.insert(out.signature);
                    if out.nontrivial {
                        acc.nontrivial_sigs.insert(out.signature);
                        for s in &out.extra_signatures {
                            acc.nontrivial_sigs.insert(*s);
                        }
                    }
                    acc.stats.merge(&out.stats);
                    let events = out.stats.sums.get("events").copied().unwrap_or(0);
                    if i < 2 || i == n / 2 {
                        acc.samples.push((i, out.concrete.clone().unwrap_or_else(|| case.clone()), events));
                    }
                    for v in out.violations {
                        if v.property == report_prop {
                            let cnt = acc.tag_counts.entry(v.tag.clone()).or_insert(0);
                            *cnt += 1;
                            if *cnt <= 3 {
                                let c = out.concrete.clone().unwrap_or_else(|| case.clone());
                                acc.found.push(Found { index: i, case: c, v });
                            }
                        } else {
                            *acc.cross.entry(v.tag.clone()).or_insert(0) += 1;
                        }
                    }
                }
                let mut t = total.lock().unwrap();
                t.runs += acc.runs;
                t.evaluations += acc.evaluations;
                t.sim_ns = t.sim_ns.saturating_add(acc.sim_ns);
                t.all_sigs.extend(acc.all_sigs);
                t.nontrivial_sigs.extend(acc.nontrivial_sigs);
                t.stats.merge(&acc.stats);
                t.found.extend(acc.found);
                for (k, v) in acc.cross {
                    *t.cross.entry(k).or_insert(0) += v;
                }
                t.samples.extend(acc.samples);
                for (k, v) in acc.tag_counts {
                    *t.tag_counts.entry(k).or_insert(0) += v;
                }
            });
        }
    });
    let mut acc = total.into_inner().unwrap();
    acc.found.sort_by(|a, b| (a.index, &a.v.tag).cmp(&(b.index, &b.v.tag)));
    acc.samples.sort_by_key(|s| s.0);
    acc.samples.truncate(3);
    acc
}

/// Does this case (still) violate `property` with oracle tag `tag`?
fn still_fails(sc: &dyn Scenario, case: &Case, property: &str, tag: &str) -> Option<(Violation, u64)> {
    let out = sc.run(case);
    out.violations.into_iter().find(|v| v.property == property && v.tag == tag).map(|v| (v, out.log_hash))
}

/// ddmin over steps, then parameter shrinking, keeping the same oracle tag. Budget-capped.
pub fn minimise(sc: &dyn Scenario, case: &Case, property: &str, tag: &str) -> (Case, u64) {
    let t0 = Instant::now();
    let mut budget: i64 = 1500;
    let mut best = case.clone();
    let over = |b: i64, t0: &Instant| b <= 0 || t0.elapsed().as_secs() > 45;
    // try to cut the tail after the violation first
    if sc.steps_minimisable() && !best.steps.is_empty() {
        let mut n = 2usize;
        while best.steps.len() >= 1 && !over(budget, &t0) {
            let len = best.steps.len();
            let chunk = (len + n - 1) / n;
            let mut reduced = false;
            let mut start = 0;
            while start < len && !over(budget, &t0) {
                let end = (start + chunk).min(len);
                let mut cand = best.clone();
                cand.steps.drain(start..end);
                budget -= 1;
                if still_fails(sc, &cand, property, tag).is_some() {
                    best = cand;
                    reduced = true;
                    break;
                }
                start = end;
            }
            if reduced {
                n = (n.saturating_sub(1)).max(2);
            } else {
                if chunk <= 1 {
                    break;
                }
                n = (n * 2).min(len);
            }
        }
    }
    // parameter shrinking (greedy, to a fixpoint)
    loop {
        if over(budget, &t0) {
            break;
        }
        let mut progressed = false;
        for cand in sc.shrink(&best) {
            if over(budget, &t0) {
                break;
            }
            budget -= 1;
            if still_fails(sc, &cand, property, tag).is_some() {
                best = cand;
                progressed = true;
                break;
            }
        }
        if !progressed {
            break;
        }
    }
    let h = still_fails(sc, &best, property, tag).map(|x| x.1).unwrap_or(0);
    (best, h)
}

pub fn write_replay(case: &Case, v: &Violation, log_hash: u64, verif_seed: u64, dir: &str, name: &str) -> String {
    let _ = std::fs::create_dir_all(dir);
    let path = format!("{dir}/{name}.json");
    let doc = json!({
        "property": case.property,
        "scenario": case.scenario,
        "verif_seed": verif_seed,
        "seed": case.seed,
        "params": case.params,
        "steps": case.steps,
        "explicit": case.explicit,
        "profile": if std::env::var_os("VERIF_TWIN_CHILD").is_some() { "release" } else { "checked" },
        "expect": { "oracle": v.tag, "at": v.at, "detail": v.detail, "log_hash": format!("{log_hash:016x}") },
    });
    std::fs::write(&path, serde_json::to_string_pretty(&doc).unwrap()).expect("write replay");
    path
}


/// Run the same check once more in the build without debug assertions and overflow checks (child
/// process of the release-profile binary) and fold its verdicts into this run's `extra` value.
/// A debug assertion that fires first would otherwise hide what the property's own oracle has to say.
pub fn release_twin(property: &str, tier: Tier, seed: u64, mut v: Value) -> Value {
    if std::env::var_os("VERIF_TWIN_CHILD").is_some() {
        return v;
    }
    if !v.is_object() {
        v = json!({});
    }
    let exe = format!("{}/sim/target/release/focasim", verif_root());
    let out = std::process::Command::new(&exe)
        .args([property, "--tier", tier.name()])
        .env("VERIF_TWIN_CHILD", "1")
        .env("VERIF_EVIDENCE_SUFFIX", ".release-profile")
        .env("VERIF_SEED", seed.to_string())
        .output();
    match out {
        Ok(o) => {
            let text = String::from_utf8_lossy(&o.stdout).to_string();
            let mut lines: Vec<String> = v["lines"].as_array().cloned().unwrap_or_default().iter().filter_map(|x| x.as_str().map(|s| s.to_string())).collect();
            let mut viol = v["violations"].as_u64().unwrap_or(0);
            for l in text.lines() {
                if l.starts_with("VIOLATION ") {
                    lines.push(l.to_string());
                    viol += 1;
                } else if l.trim_start().starts_with("oracle=") {
                    lines.push(format!("  (release profile) {}", l.trim_start()));
                }
            }
            let suffix = std::env::var("VERIF_EVIDENCE_SUFFIX").unwrap_or_default();
            let _ = suffix;
            let ev_path = format!("{}/evidence/{property}.release-profile.json", verif_root());
            let ev: Value = std::fs::read_to_string(&ev_path).ok().and_then(|s| serde_json::from_str(&s).ok()).unwrap_or(Value::Null);
            let _ = std::fs::remove_file(&ev_path);
            v["release_profile_twin"] = json!({
                "profile": "release (debug-assertions off, overflow-checks off)",
                "exit": o.status.code(),
                "evaluations": ev["coverage"]["evaluations"],
                "distinct_nontrivial": ev["coverage"]["distinct_nontrivial"],
                "calls": ev["coverage"]["counters"]["calls"],
                "violations": ev["violations"],
            });
            v["lines"] = json!(lines);
            v["violations"] = json!(viol);
            if o.status.code() == Some(2) || o.status.code().is_none() {
                v["harness_error"] = json!(format!("release twin failed: {}", String::from_utf8_lossy(&o.stderr)));
            }
        }
        Err(e) => {
            v["harness_error"] = json!(format!("cannot run {exe}: {e}"));
        }
    }
    v["profile"] = json!("checked (optimised, debug-assertions on, overflow-checks on)");
    v
}

/// Long hex blobs (oversized random datagrams) are abbreviated in evidence samples.
fn shorten_strings(v: &mut Value) {
    match v {
        Value::String(s) if s.len() > 300 => {
            let n = s.len();
            s.truncate(120);
            s.push_str(&format!("...({} characters in all)", n));
        }
        Value::Array(a) => a.iter_mut().for_each(shorten_strings),
        Value::Object(o) => o.values_mut().for_each(shorten_strings),
        _ => {}
    }
}

pub struct CheckResult {
    pub exit: i32,
}

fn find_scenario<'a>(def: &'a CheckDef, name: &str) -> Option<&'static dyn Scenario> {
    def.batches.iter().map(|b| b.scenario).find(|s| s.name() == name)
}

/// Replay a file: exit 1 + VIOLATION if it reproduces, 0 if the run is clean, 2 on mismatch.
pub fn replay(def: &CheckDef, path: &str) -> i32 {
    crate::node::install_quiet_panic_hook();
    let Ok(text) = std::fs::read_to_string(path) else {
        eprintln!("cannot read {path}");
        return 2;
    };
    let Ok(doc) = serde_json::from_str::<Value>(&text) else {
        eprintln!("cannot parse {path}");
        return 2;
    };
    let Ok(case) = serde_json::from_value::<Case>(doc.clone()) else {
        eprintln!("not a case file: {path}");
        return 2;
    };
    let Some(sc) = find_scenario(def, &case.scenario) else {
        eprintln!("unknown scenario {} for {}", case.scenario, def.property);
        return 2;
    };
    let out = sc.run(&case);
    let report_prop = report_property(def);
    let mine: Vec<&Violation> = out.violations.iter().filter(|v| v.property == report_prop).collect();
    let expect_tag = doc["expect"]["oracle"].as_str().unwrap_or("");
    let expect_hash = doc["expect"]["log_hash"].as_str().unwrap_or("");
    println!("replay {} scenario={} seed={} log_hash={:016x}", def.property, case.scenario, case.seed, out.log_hash);
    if mine.is_empty() {
        println!("replay: no violation of {} (expected oracle: {})", def.property, if expect_tag.is_empty() { "-" } else { expect_tag });
        return 0;
    }
    for v in &mine {
        println!("  oracle={} at={} {}", v.tag, v.at, v.detail);
    }
    let kf = load_known_findings(&format!("{}/KNOWN_FINDINGS.txt", verif_root()));
    let all_known = mine.iter().all(|v| kf.iter().any(|k| k.property == def.property && v.tag.contains(&k.signature)));
    if !expect_tag.is_empty() {
        let same_tag = mine.iter().any(|v| v.tag == expect_tag);
        let same_hash = expect_hash.is_empty() || expect_hash == format!("{:016x}", out.log_hash);
        if !(same_tag && same_hash) {
            println!("replay: MISMATCH (expected oracle {expect_tag} hash {expect_hash})");
            return 2;
        }
    }
    if all_known {
        for v in &mine {
            println!("KNOWN-FINDING: property={} {} ({})", def.property, v.tag, v.detail);
        }
        return 0;
    }
    println!("VIOLATION property={} replay={}", def.property, path);
    1
}

/// Triage aid: `VERIF_AS_PROPERTY=C13 ./check C05` runs C05's batches but reports (minimises,
/// writes replays for) the violations of C13 observed in them. Never used by a registered command.
fn report_property(def: &CheckDef) -> &'static str {
    match std::env::var("VERIF_AS_PROPERTY") {
        Ok(p) if !p.is_empty() => Box::leak(p.into_boxed_str()),
        _ => def.property,
    }
}

pub fn run_check(def: &CheckDef, tier: Tier, verif_seed: u64) -> i32 {
    let t0 = Instant::now();
    let report_prop = report_property(def);
    println!("VERIF_SEED={verif_seed} property={} tier={} workers={}", def.property, tier.name(), worker_count());
    let root = verif_root();
    let known = load_known_findings(&format!("{root}/KNOWN_FINDINGS.txt"));
    let mut total_eval = 0u64;
    let mut total_runs = 0u64;
    let mut nontrivial: HashSet<(u64, u64)> = HashSet::new();
    let mut all_sigs = 0u64;
    let mut stats = Stats::default();
    let mut sim_ns = 0u64;
    let mut cross: BTreeMap<String, u64> = BTreeMap::new();
    let mut samples: Vec<Value> = Vec::new();
    let mut per_batch: Vec<Value> = Vec::new();
    let mut violation_lines: Vec<String> = Vec::new();
    let mut known_hits: BTreeMap<String, u64> = BTreeMap::new();
    let mut known_lines: BTreeSet<String> = BTreeSet::new();
    let mut n_violations = 0u64;
    let mut exhaustive_all = true;

    for b in &def.batches {
        let sc = b.scenario;
        let mut n = match tier {
            Tier::Quick => b.quick,
            Tier::Thorough => b.thorough,
        };
        if let Some(len) = sc.exhaustive_len(tier) {
            n = len;
        } else {
            exhaustive_all = false;
        }
        if let Ok(s) = std::env::var("VERIF_SCALE") {
            if let Ok(f) = s.parse::<f64>() {
                if sc.exhaustive_len(tier).is_none() {
                    n = ((n as f64) * f).ceil() as u64;
                }
            }
        }
        if n == 0 {
            continue;
        }
        let tb = Instant::now();
        let acc = run_batch(def.property, report_prop, sc, n, tier, verif_seed);
        let sname = name_hash(sc.name());
        total_eval += acc.evaluations;
        total_runs += acc.runs;
        all_sigs += acc.all_sigs.len() as u64;
        for s in &acc.nontrivial_sigs {
            nontrivial.insert((sname, *s));
        }
        stats.merge(&acc.stats);
        sim_ns = sim_ns.saturating_add(acc.sim_ns);
        for (k, v) in &acc.cross {
            *cross.entry(k.clone()).or_insert(0) += v;
        }
        for (i, c, _) in &acc.samples {
            if samples.len() < 6 {
                let mut c = sc.concretise(c);
                if c.steps.len() > 40 {
                    let extra = c.steps.len() - 40;
                    c.steps.truncate(40);
                    c.steps.push(json!(format!("... {extra} more steps")));
                }
                let mut v = json!({"run_index": i, "case": c});
                shorten_strings(&mut v);
                samples.push(v);
            }
        }
        per_batch.push(json!({
            "scenario": sc.name(), "runs": acc.runs, "evaluations": acc.evaluations,
            "distinct_signatures": acc.all_sigs.len(), "distinct_nontrivial": acc.nontrivial_sigs.len(),
            "wall_s": tb.elapsed().as_secs_f64(), "exhaustive": sc.exhaustive_len(tier).is_some(),
        }));
        println!(
            "  batch {:<28} runs={:<9} evals={:<10} nontrivial-distinct={:<8} wall={:.1}s",
            sc.name(), acc.runs, acc.evaluations, acc.nontrivial_sigs.len(), tb.elapsed().as_secs_f64()
        );

        // triage violations: known findings vs. new ones; minimise one per distinct tag
        let mut by_tag: BTreeMap<String, Vec<&Found>> = BTreeMap::new();
        for f in &acc.found {
            by_tag.entry(f.v.tag.clone()).or_default().push(f);
        }
        for (tag, fs) in by_tag {
            if let Some(k) = known.iter().find(|k| k.property == report_prop && tag.contains(&k.signature)) {
                *known_hits.entry(k.id.clone()).or_insert(0) += acc.tag_counts.get(&tag).copied().unwrap_or(fs.len() as u64);
                known_lines.insert(format!("KNOWN-FINDING: property={} id={} {} (e.g. {})", def.property, k.id, tag, fs[0].v.detail));
                continue;
            }
            n_violations += acc.tag_counts.get(&tag).copied().unwrap_or(fs.len() as u64);
            if violation_lines.len() >= 4 {
                continue;
            }
            let f = fs[0];
            let (min_case, h) = minimise(sc, &f.case, report_prop, &tag);
            let v = still_fails(sc, &min_case, report_prop, &tag).map(|x| x.0).unwrap_or_else(|| f.v.clone());
            let name = format!("{}-{}-{:016x}-{:04x}", def.property, sc.name(), f.case.seed, name_hash(&tag) & 0xffff);
            let path = write_replay(&min_case, &v, h, verif_seed, &format!("{root}/replays"), &name);
            println!("  oracle={} at={} detail={} (steps: {} -> {})", v.tag, v.at, v.detail, f.case.steps.len(), min_case.steps.len());
            violation_lines.push(format!("VIOLATION property={} replay={}", report_prop, path));
        }
    }

    // pinned replays of open findings: re-execute each, print exactly one line per finding
    let mut pinned: Vec<Value> = Vec::new();
    for k in known.iter().filter(|k| k.property == def.property) {
        let path = format!("{root}/findings/{}.json", k.id);
        if let Ok(text) = std::fs::read_to_string(&path) {
            if let Ok(case) = serde_json::from_str::<Case>(&text) {
                if let Some(sc) = find_scenario(def, &case.scenario) {
                    let out = sc.run(&case);
                    let hit = out.violations.iter().find(|v| v.property == def.property && v.tag.contains(&k.signature));
                    match hit {
                        Some(v) => {
                            // replace any seed-dependent line for this finding by the pinned one
                            known_lines.retain(|l| !l.contains(&format!("id={} ", k.id)));
                            known_lines.insert(format!("KNOWN-FINDING: property={} id={} {} (pinned replay {}: {})", def.property, k.id, v.tag, path, v.detail));
                            pinned.push(json!({"id": k.id, "replay": path, "reproduces": true}));
                        }
                        None => {
                            println!("note: pinned replay of finding {} no longer reproduces ({})", k.id, path);
                            pinned.push(json!({"id": k.id, "replay": path, "reproduces": false}));
                        }
                    }
                }
            }
        }
    }
    for l in &known_lines {
        println!("{l}");
    }
    for l in &violation_lines {
        println!("{l}");
    }

    let wall = t0.elapsed().as_secs_f64();
    let extra = def.extra.map(|f| f(tier, verif_seed)).unwrap_or(Value::Null);
    let mut harness_error = stats.sums.get("HARNESS_PANIC").copied().unwrap_or(0) > 0;
    if !extra.is_null() {
        if let Some(ls) = extra["lines"].as_array() {
            for l in ls {
                if let Some(l) = l.as_str() {
                    println!("{l}");
                }
            }
        }
        n_violations += extra["violations"].as_u64().unwrap_or(0);
        if let Some(e) = extra["harness_error"].as_str() {
            eprintln!("harness error: {e}");
            harness_error = true;
        }
    }
    let mut coverage = json!({
        "evaluations": total_eval,
        "distinct_nontrivial": nontrivial.len(),
        "rule": def.rule,
        "samples": samples,
        "exhaustive": exhaustive_all && !def.batches.is_empty(),
        "simulated_runs": total_runs,
        "distinct_behaviour_signatures_all_runs": all_sigs,
        "simulated_seconds": (sim_ns as f64) / 1e9,
        "runs_per_hour": if wall > 0.0 { (total_runs as f64) * 3600.0 / wall } else { 0.0 },
        "batches": per_batch,
        "counters": stats.sums,
        "maxima": stats.maxs,
        "components_real": def.real_components,
        "components_stub": def.stub_components,
        "cross_property_observations": cross,
        "known_findings_hit": known_hits,
        "pinned_findings": pinned,
        "workers": worker_count(),
    });
    if !extra.is_null() {
        coverage["extra"] = extra;
    }
    let ev = json!({
        "property_id": def.property,
        "tier": tier.name(),
        "seed": verif_seed,
        "level": def.level,
        "coverage": coverage,
        "assumptions": def.assumptions,
        "wall_s": wall,
        "violations": n_violations,
    });
    let evdir = format!("{root}/evidence");
    let _ = std::fs::create_dir_all(&evdir);
    let part = std::env::var("VERIF_EVIDENCE_SUFFIX").unwrap_or_default();
    std::fs::write(format!("{evdir}/{}{}.json", def.property, part), serde_json::to_string_pretty(&ev).unwrap())
        .expect("write evidence");
    println!(
        "{}: runs={} evaluations={} distinct-nontrivial={} violations={} wall={:.1}s",
        def.property, total_runs, total_eval, nontrivial.len(), n_violations, wall
    );
    if n_violations > 0 {
        1
    } else if harness_error {
        2
    } else {
        0
    }
}

/// Determinism self-test support: run the first `n` cases of every batch of a check and print one
/// hash per batch over (index, log hash, signature, violation tags) in index order. Independent of
/// the number of workers by construction; the self-test compares the output across processes.
pub fn hashdump(def: &CheckDef, n: u64, tier: Tier, verif_seed: u64) {
    crate::node::install_quiet_panic_hook();
    for b in &def.batches {
        let sc = b.scenario;
        let total = sc.exhaustive_len(tier).unwrap_or(match tier {
            Tier::Quick => b.quick,
            Tier::Thorough => b.thorough,
        });
        let n = n.min(total);
        let results: Vec<Mutex<Option<(u64, u64, String)>>> = (0..n).map(|_| Mutex::new(None)).collect();
        let next = AtomicU64::new(0);
        std::thread::scope(|scope| {
            for _ in 0..worker_count().max(1) {
                scope.spawn(|| loop {
                    let i = next.fetch_add(1, Ordering::Relaxed);
                    if i >= n {
                        break;
                    }
                    let seed = run_seed(verif_seed, def.property, sc.name(), i);
                    let case = sc.gen(seed, tier, i);
                    let out = sc.run(&case);
                    let tags: Vec<String> = out.violations.iter().map(|v| v.tag.clone()).collect();
                    *results[i as usize].lock().unwrap() = Some((out.log_hash, out.signature, tags.join(",")));
                });
            }
        });
        let mut h = crate::prng::LogHash::new();
        for (i, r) in results.iter().enumerate() {
            let (a, b2, t) = r.lock().unwrap().clone().unwrap_or((0, 0, "missing".into()));
            h.u(i as u64);
            h.u(a);
            h.u(b2);
            h.s(&t);
        }
        println!("{} {} n={} hash={:016x}", def.property, sc.name(), n, h.0);
    }
}
